#!/bin/bash
# confirm_seed.sh <seed dir> <pkg dir for demo> <test packages...>: confirms a seeded change in a scratch worktree:
# demo fails with the change and passes without; the existing tests pass with the change.
D="$1"; PKG="$2"; shift 2
RACE=""; case "$D" in *C26-*) RACE="-race";; esac   # data-race demonstrations need the race detector
WT=/tmp/wt-confirm-$$
git -C /repo worktree add -q --detach $WT HEAD || exit 2
cd $WT
cp "$D/demo_test.go" $PKG/zz_seed_demo_test.go
echo "--- demo without change (expect ok)"; go test $RACE -mod=mod -vet=off -count=1 -run "$(grep -o 'func Test[A-Za-z0-9_]*' $D/demo_test.go | sed 's/func //' | paste -sd'|')" ./$PKG 2>&1 | tail -2
git apply "$D/patch.diff" || echo "PATCH FAILED"
echo "--- demo with change (expect FAIL)"; go test $RACE -mod=mod -vet=off -count=1 -run "$(grep -o 'func Test[A-Za-z0-9_]*' $D/demo_test.go | sed 's/func //' | paste -sd'|')" ./$PKG 2>&1 | tail -2
rm $PKG/zz_seed_demo_test.go
echo "--- existing tests with change (expect ok)"; go test -mod=mod -vet=off -count=1 "$@" 2>&1 | grep -v "no test files" | grep -v "^ok" | tail -5; echo "(end)"
cd /; git -C /repo worktree remove --force $WT
