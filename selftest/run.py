#!/usr/bin/env python3
"""Must-fail self-test: each corpus entry is a deliberate property-breaking edit applied in memory
(build overlay, nothing written to /repo); the named obligation must then fail.
usage: selftest/run.py [prop ...]   exit 0 iff every mutant is caught"""
import json, os, subprocess, sys, shutil, concurrent.futures
V='/verif'
import glob
corpus=[json.load(open(f)) for f in sorted(glob.glob(f'{V}/selftest/corpus.d/*.json'))]
want=set(sys.argv[1:])
def run(e):
    d=f"{V}/.work/selftest/{e['id']}"
    os.makedirs(d,exist_ok=True)
    src=open('/repo/'+e['file']).read()
    if e['old'] not in src:
        return (e['id'],False,'pattern not found in '+e['file'])
    open(f'{d}/mut.go','w').write(src.replace(e['old'],e['new'],1))
    json.dump({"Replace":{'/repo/'+e['file']:f'{d}/mut.go'}},open(f'{d}/ov.json','w'))
    cmd=[f'{V}/bin/govc','run','-prop',e['prop'],'-overlay',f'{d}/ov.json','-noreplay','-verif',d,'-jobs','4']
    if e.get('only'): cmd+=['-only',e['only']]
    env=dict(os.environ,GOFLAGS='-mod=mod',GOPROXY='off',GOSUMDB='off',GOTOOLCHAIN='local')
    os.makedirs(f'{d}/contracts_mirror',exist_ok=True)
    shutil.copy(f'{V}/known_findings.json',d)
    r=subprocess.run(cmd,capture_output=True,text=True,env=env)
    hit=[l for l in r.stdout.splitlines() if l.startswith('VIOLATION') and e['expect'] in l]
    shutil.rmtree(d,ignore_errors=True)
    return (e['id'],bool(hit),(hit[0] if hit else (r.stdout[-400:]+r.stderr[-300:])))
es=[e for e in corpus if not want or e['prop'] in want or e['id'] in want]
bad=0
with concurrent.futures.ThreadPoolExecutor(4) as ex:
    for id_,ok,msg in ex.map(run,es):
        print(('CAUGHT ' if ok else 'MISSED ')+id_+('' if ok else '  :: '+msg.replace('\n',' | ')))
        bad+=0 if ok else 1
print(f'{len(es)-bad}/{len(es)} mutants caught')
sys.exit(1 if bad else 0)
