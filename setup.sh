#!/bin/bash
# Builds the verifier from the sources in /verif/govc (x/tools v0.29.0 from the module cache; offline).
set -e
cd "$(dirname "$0")"
export GOFLAGS=-mod=mod GOPROXY=off GOSUMDB=off GOTOOLCHAIN=local GOWORK=off
mkdir -p bin evidence replays .work
(cd govc && go build -o ../bin/govc .)
echo "govc built"
