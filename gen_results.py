#!/usr/bin/env python3
"""Regenerates seeded/RESULTS.md from a seedall.sh log (first argument) plus the
overrides below (seeds re-run after the log's commit)."""
import json, re, sys, glob, os
log = open(sys.argv[1]).read() if len(sys.argv) > 1 else ''
res = {}
cur = None
for l in log.split('\n'):
    if l.startswith('##### '):
        cur = l[6:].strip(); res[cur] = []
    elif cur and l.startswith('VIOLATION'):
        m = re.search(r'obligation=(\S+)', l)
        conf = 'no-failing-input-found' not in l
        res[cur].append(((m.group(1) if m else '?'), conf))
    elif cur and ('BROKEN' in l):
        res[cur].append(('check could not run', False))
over = json.load(open('/verif/seeded/overrides.json')) if os.path.exists('/verif/seeded/overrides.json') else {}
for k, v in over.items():
    res[k] = [(o, c) for o, c in v]
claimed = {k for k, v in json.load(open('/verif/props.json')).items() if v.get('claimed')}
out = ["# Seeded changes and which checks catch them", "",
 "Each directory holds a change written by an independent sub-agent that saw only the property text",
 "(patch.diff, a demonstration test that fails with the change and passes without, meta.json).",
 "Every change was confirmed in a scratch worktree (`confirm_seed.sh` / `confirm_all.sh`): existing tests pass",
 "with the change, the demonstration fails with it and passes without it. The checks are run with",
 "`seedall.sh` (scratch worktree of /repo's HEAD, `./check`-equivalent quick run, nothing left behind).",
 "'replayed' = the solver's counterexample (or the bounded harness) was executed on the real code and confirmed.", "",
 "| seed | what it changes (from meta.json) | result | obligation that fails |", "|---|---|---|---|"]
n = c = 0
for d in sorted(glob.glob('/verif/seeded/C*-*'), key=lambda p: (p.split('/')[-1].split('-')[0], int(p.split('-')[-1]))):
    sid = os.path.basename(d)
    prop = sid.split('-')[0]
    try:
        meta = json.load(open(d + '/meta.json'))
    except Exception:
        meta = {}
    what = (meta.get('function', '') + ': ' + meta.get('needs', '')).replace('|', '/').replace('\n', ' ')
    what = what[:170] + ('...' if len(what) > 170 else '')
    n += 1
    if prop not in claimed:
        out.append(f"| {sid} | {what} | property not claimed | - |"); continue
    v = res.get(sid)
    if v is None:
        out.append(f"| {sid} | {what} | not run | - |"); continue
    if not v:
        out.append(f"| {sid} | {what} | **missed** | - |"); continue
    c += 1
    o, conf = v[0]
    extra = f" (+{len(v)-1} more)" if len(v) > 1 else ''
    out.append(f"| {sid} | {what} | caught{' (replayed)' if any(x[1] for x in v) else ''} | `{o}`{extra} |")
out += ["", f"{c} of {n} seeded changes are caught by the check of their property (seeds of properties that are not claimed count as not caught)."]
open('/verif/seeded/RESULTS.md', 'w').write('\n'.join(out) + '\n')
print(c, 'of', n)
