#!/bin/bash
# seedtest.sh <prop> <patch.diff> [more props...]: apply a seeded change to /repo, run the quick check(s), undo.
# Evidence files are saved and restored: evidence must describe the unchanged tree.
P="$1"; PATCH="$2"; shift 2
cd /repo || exit 2
if [ -n "$(git status --porcelain)" ]; then echo "REFUSING: /repo has uncommitted changes (commit them first)"; exit 2; fi
rm -rf /verif/.work/evidence.bak; cp -r /verif/evidence /verif/.work/evidence.bak
git apply "$PATCH" || { echo "patch does not apply"; exit 2; }
for p in $P "$@"; do (cd /verif && ./check $p quick 2>&1 | grep -E "^VIOLATION|^property|KNOWN|BROKEN" | cut -c1-260); done
git -C /repo checkout -- .
rm -rf /verif/evidence; mv /verif/.work/evidence.bak /verif/evidence
