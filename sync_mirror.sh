#!/bin/bash
# Copies the contract files from /repo into /verif/contracts_mirror (fallback used when a file is missing in /repo).
cd "$(dirname "$0")"
rm -rf contracts_mirror && mkdir -p contracts_mirror
(cd /repo && find . -name zz_contracts_verif.go | while read f; do mkdir -p /verif/contracts_mirror/$(dirname $f); cp $f /verif/contracts_mirror/$f; done)
(cd contracts_mirror && find . -name '*.go' | sort | xargs sha256sum > HASHES)
