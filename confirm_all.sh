#!/bin/bash
# confirm_all.sh <seed ids...>: confirm seeds; the demo's first line names the directory it belongs in ("// place in <dir>")
for id in "$@"; do
  d=/verif/seeded/$id
  dir=$(head -1 $d/demo_test.go | sed -n 's#^// *place in *\([A-Za-z0-9_/.-]*\).*#\1#p' | sed 's#/$##')
  if [ -z "$dir" ] || [ ! -d /repo/$dir ]; then
    dir=$(head -3 $d/demo_test.go | grep -o '[a-zA-Z0-9_/.-]*/[a-zA-Z0-9_/.-]*' | grep -v '^//' | head -1 | sed 's#/$##')
    case $id in C21-*|C23-*) dir=protocols/bgp/server;; C19-*|C16-*) dir=protocols/bgp/packet;; C30-*) dir=protocols/isis/packet;; esac
  fi
  echo "##### $id (demo in $dir)"
  /verif/confirm_seed.sh $d $dir ./net/... ./route/... ./routingtable/... ./protocols/... ./cmd/... ./util/... ./config/... 2>&1 | grep -v "^$" | cut -c1-160
done
