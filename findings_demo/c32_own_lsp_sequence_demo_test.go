// place in protocols/isis/server
//
// Demonstration against the real code of a finding of the LSDB contracts
// (property C32, obligation post:protocols/isis/server.(*lsdb).processLSP:6):
// a copy of the router's own LSP with a higher sequence number than the router
// currently uses (left in the network from before a restart) is stored, and
// the router goes on originating its LSP with lower sequence numbers, which
// its neighbors take for older than the stale copy.
//   go test -run TestVerifDemoOwnLSPSequence ./protocols/isis/server
package server

import (
	"testing"

	"github.com/bio-routing/bio-rd/protocols/isis/packet"
	"github.com/bio-routing/bio-rd/protocols/isis/types"
)

func TestVerifDemoOwnLSPSequence(t *testing.T) {
	sysID := types.SystemID{1, 2, 3, 4, 5, 6}
	s, err := New([]*types.NET{{AreaID: types.AreaID{0x49, 0, 1}, SystemID: sysID}}, nil, 1200)
	if err != nil {
		t.Fatal(err)
	}
	s.SetHostnameFunc(func() (string, error) { return "demo", nil })
	ifa := &netIfa{srv: s, cfg: &InterfaceConfig{Passive: true}}
	stale := &packet.LSPDU{LSPID: packet.LSPID{SystemID: sysID}, SequenceNumber: 500, RemainingLifetime: 1000}
	s.lsdbL2.processLSP(ifa, stale)
	own := s.generateLocalLSP()
	if own.SequenceNumber <= stale.SequenceNumber {
		t.Fatalf("own LSP originated with sequence number %d although a copy with %d was received from the network", own.SequenceNumber, stale.SequenceNumber)
	}
}
