// place in protocols/bgp/server
//
// Demonstrations against the real code of two findings of the lock contracts
// (property C25): an event is sent to an FSM through its unbuffered channel
// while the peer's FSM-list lock is held, and the FSM's goroutine may be
// waiting for exactly that lock (collisionHandling runs on it).
//   go test -run 'TestVerifDemoStopVsCollision|TestVerifDemoCollisionVsCollision' ./protocols/bgp/server
package server

import (
	"testing"
	"time"

	bnet "github.com/bio-routing/bio-rd/net"
	"github.com/bio-routing/bio-rd/routingtable/vrf"
)

func verifDemoPeer() *peer {
	return &peer{
		addr:     bnet.IPv4FromOctets(127, 0, 0, 1).Ptr(),
		routerID: 1,
		passive:  true,
		vrf:      vrf.NewUntrackedVRF("vrf0", 0),
	}
}

// obligation lock:protocols/bgp/server.(*peer).stop:blocking#0
func TestVerifDemoStopVsCollision(t *testing.T) {
	p := verifDemoPeer()
	fsm := NewActiveFSM(p)
	p.fsms = []*FSM{fsm}
	go p.stop() // takes fsmsMu, then waits for the FSM to take ManualStop
	time.Sleep(200 * time.Millisecond)
	done := make(chan struct{})
	go func() {
		// the FSM's goroutine: it has just received an OPEN and checks for a collision
		// (openSentState.openMsgReceived -> peer.collisionHandling), then goes on to take events
		p.collisionHandling(fsm)
		<-fsm.eventCh
		close(done)
	}()
	select {
	case <-done:
	case <-time.After(3 * time.Second):
		t.Fatal("blocked: stop holds fsmsMu waiting for the FSM, the FSM waits for fsmsMu in collisionHandling")
	}
}

// obligation lock:protocols/bgp/server.(*peer).collisionHandling:order#2
func TestVerifDemoCollisionVsCollision(t *testing.T) {
	p := verifDemoPeer()
	fsm1, fsm2 := NewActiveFSM(p), NewActiveFSM(p)
	fsm1.state, fsm2.state = newOpenConfirmState(fsm1), newOpenConfirmState(fsm2)
	fsm1.neighborID, fsm2.neighborID = 2, 2 // local identifier 1 is lower: the other connection is ceased
	p.fsms = []*FSM{fsm1, fsm2}
	done := make(chan struct{}, 2)
	// both connections receive the neighbor's OPEN at about the same time (the collision case)
	go func() { p.collisionHandling(fsm1); done <- struct{}{} }() // holds fsmsMu, sends Cease to fsm2
	time.Sleep(200 * time.Millisecond)
	go func() { p.collisionHandling(fsm2); <-fsm2.eventCh; done <- struct{}{} }() // fsm2's goroutine
	for i := 0; i < 2; i++ {
		select {
		case <-done:
		case <-time.After(3 * time.Second):
			t.Fatal("blocked: FSM1 holds fsmsMu waiting for FSM2 to take Cease, FSM2 waits for fsmsMu")
		}
	}
}
