// place in routingtable/adjRIBOut
//
// Demonstrations against the real code of two findings of the lock contracts
// (properties C25 and C26). Not part of the repository; copy into
// routingtable/adjRIBOut of a scratch worktree and run:
//
//   go test -run TestVerifDemoLockOrder ./routingtable/adjRIBOut          (deadlock: FAIL "blocked")
//   go test -race -run TestVerifDemoFilterRace ./routingtable/adjRIBOut   (race detector report)
package adjRIBOut

import (
	"sync"
	"testing"
	"time"

	"github.com/bio-routing/bio-rd/net"
	"github.com/bio-routing/bio-rd/protocols/bgp/types"
	"github.com/bio-routing/bio-rd/route"
	"github.com/bio-routing/bio-rd/routingtable"
	"github.com/bio-routing/bio-rd/routingtable/filter"
	"github.com/bio-routing/bio-rd/routingtable/locRIB"
)

func verifDemoSetup() (*locRIB.LocRIB, *AdjRIBOut, func(i int) (*net.Prefix, *route.Path)) {
	sa := routingtable.SessionAttrs{
		Type:     route.BGPPathType,
		LocalIP:  net.IPv4FromOctets(127, 0, 0, 1).Ptr(),
		PeerIP:   net.IPv4FromOctets(127, 0, 0, 2).Ptr(),
		LocalASN: 41981,
	}
	rib := locRIB.New("demo")
	out := New(rib, sa, filter.NewAcceptAllFilterChain())
	rib.RegisterWithOptions(out, routingtable.ClientOptions{BestOnly: true})
	mk := func(i int) (*net.Prefix, *route.Path) {
		pfx := net.NewPfx(net.IPv4FromOctets(10, uint8(i>>8), uint8(i), 0), 24).Ptr()
		p := &route.Path{Type: route.BGPPathType, BGPPath: &route.BGPPath{
			BGPPathA: &route.BGPPathA{EBGP: true, Source: net.IPv4FromOctets(192, 0, 2, 1).Ptr(), NextHop: net.IPv4FromOctets(192, 0, 2, 1).Ptr()},
			ASPath:   &types.ASPath{{Type: types.ASSequence, ASNs: []uint32{65000}}}, ASPathLen: 1}}
		return pfx, p
	}
	return rib, out, mk
}

// C25: the Loc-RIB calls the Adj-RIB-Out with its own lock held (AddPath), and
// the Adj-RIB-Out calls the Loc-RIB with its own lock held (ReplaceFilterChain
// -> RefreshClient): a route change concurrent with an export policy change
// blocks both for ever.
func TestVerifDemoLockOrder(t *testing.T) {
	rib, out, mk := verifDemoSetup()
	var wg sync.WaitGroup
	wg.Add(2)
	go func() {
		defer wg.Done()
		for i := 0; i < 20000; i++ {
			pfx, p := mk(i % 4096)
			rib.AddPath(pfx, p)
		}
	}()
	go func() {
		defer wg.Done()
		for i := 0; i < 2000; i++ {
			out.ReplaceFilterChain(filter.NewAcceptAllFilterChain())
		}
	}()
	done := make(chan struct{})
	go func() { wg.Wait(); close(done) }()
	select {
	case <-done:
		t.Log("no deadlock in this run")
	case <-time.After(20 * time.Second):
		t.Fatal("blocked: Loc-RIB.AddPath and Adj-RIB-Out.ReplaceFilterChain wait for each other's lock")
	}
}

// C26: AddPath reads exportFilterChain before it takes the lock under which
// ReplaceFilterChain writes it.
func TestVerifDemoFilterRace(t *testing.T) {
	_, out, mk := verifDemoSetup()
	var wg sync.WaitGroup
	wg.Add(2)
	go func() {
		defer wg.Done()
		for i := 0; i < 200; i++ {
			pfx, p := mk(i)
			out.AddPath(pfx, p)
		}
	}()
	go func() {
		defer wg.Done()
		for i := 0; i < 200; i++ {
			out.ReplaceFilterChain(filter.NewAcceptAllFilterChain())
		}
	}()
	wg.Wait()
}
