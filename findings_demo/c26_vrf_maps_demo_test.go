// place in routingtable/vrf
//
// Demonstration against the real code of a finding of the guarded-field
// contracts (property C26): the RIB maps of a VRF are written under VRF.mu
// (createLocRIB) and read or cleared without it (RIBByName, MetricsForVRF,
// Dispose, VRFRegistry.DisposeAll).
//   go test -race -run TestVerifDemoVRFMaps ./routingtable/vrf
package vrf

import (
	"fmt"
	"sync"
	"testing"
)

func TestVerifDemoVRFMaps(t *testing.T) {
	v := NewUntrackedVRF("demo", 1)
	var wg sync.WaitGroup
	wg.Add(2)
	go func() {
		defer wg.Done()
		for i := 0; i < 100; i++ {
			v.createLocRIB(fmt.Sprintf("rib%d", i), addressFamily{afi: uint16(i + 10), safi: 1})
		}
	}()
	go func() {
		defer wg.Done()
		for i := 0; i < 100; i++ {
			v.RIBByName("rib1")
			MetricsForVRF(v)
		}
	}()
	wg.Wait()
}
