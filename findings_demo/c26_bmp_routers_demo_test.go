// place in protocols/bgp/server
//
// Demonstration against the real code of a finding of the guarded-field
// contracts (property C26): RemoveRouter reads the map of monitored routers
// without routersMu, under which AddRouter writes it.
//   go test -race -run TestVerifDemoBMPRouters ./protocols/bgp/server
package server

import (
	"net"
	"sync"
	"testing"
)

func TestVerifDemoBMPRouters(t *testing.T) {
	b := NewBMPReceiver(BMPReceiverConfig{})
	b.AddRouter(net.IP{10, 0, 0, 1}, 1, true, false)
	var wg sync.WaitGroup
	wg.Add(2)
	go func() {
		defer wg.Done()
		for i := 2; i < 60; i++ {
			b.AddRouter(net.IP{10, 0, 0, byte(i)}, 1, true, false)
		}
	}()
	go func() {
		defer wg.Done()
		b.RemoveRouter(net.IP{10, 0, 0, 1})
	}()
	wg.Wait()
}
