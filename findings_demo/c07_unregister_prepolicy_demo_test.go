// place in routingtable/adjRIBIn
//
// Demonstration against the real code of a finding (property C07: when a
// session leaves Established every route learned over it is removed from the
// Loc-RIB). The FSM detaches the Adj-RIB-In with Unregister(locRIB), and
// Unregister withdraws the stored (pre-policy) paths, not the paths the import
// policy produced: with a policy that rewrites attributes the Loc-RIB does not
// find them and keeps the routes.
//   go test -run TestVerifDemoUnregisterWithRewritingPolicy ./routingtable/adjRIBIn
package adjRIBIn

import (
	"testing"

	"github.com/bio-routing/bio-rd/net"
	"github.com/bio-routing/bio-rd/protocols/bgp/types"
	"github.com/bio-routing/bio-rd/route"
	"github.com/bio-routing/bio-rd/routingtable"
	"github.com/bio-routing/bio-rd/routingtable/filter"
	"github.com/bio-routing/bio-rd/routingtable/filter/actions"
	"github.com/bio-routing/bio-rd/routingtable/locRIB"
	"github.com/bio-routing/bio-rd/routingtable/vrf"
)

func TestVerifDemoUnregisterWithRewritingPolicy(t *testing.T) {
	setLP := filter.Chain{filter.NewFilter("SET_LP", []*filter.Term{
		filter.NewTerm("t", []*filter.TermCondition{}, []actions.Action{actions.NewSetLocalPrefAction(300), &actions.AcceptAction{}}),
	})}
	in := New(setLP, vrf.NewUntrackedVRF("vrf0", 0), routingtable.SessionAttrs{PeerIP: net.IPv4FromOctets(192, 0, 2, 1).Ptr(), IBGP: true, RouterID: 7, ClusterID: 9})
	rib := locRIB.New("inet.0")
	in.Register(rib)
	pfx := net.NewPfx(net.IPv4FromOctets(10, 0, 0, 0), 8).Ptr()
	in.AddPath(pfx, &route.Path{Type: route.BGPPathType, BGPPath: &route.BGPPath{
		BGPPathA: &route.BGPPathA{Source: net.IPv4FromOctets(192, 0, 2, 1).Ptr(), NextHop: net.IPv4FromOctets(192, 0, 2, 1).Ptr(), LocalPref: 100},
		ASPath:   &types.ASPath{{Type: types.ASSequence, ASNs: []uint32{65000}}}, ASPathLen: 1}})
	if rib.Count() != 1 {
		t.Fatalf("setup: route not in the Loc-RIB (count %d)", rib.Count())
	}
	in.Unregister(rib) // what fsmAddressFamily.dispose does when the session goes down
	if rib.Count() != 0 {
		t.Fatalf("the Loc-RIB still holds %d route(s) of the session after Unregister", rib.Count())
	}
}
