// place in routingtable/adjRIBOut
//
// Demonstration against the real code of a finding of the lock contracts
// (property C25, obligation lock:...(*AdjRIBOut).RefreshRoute:order#0).
// Copy into routingtable/adjRIBOut of a scratch worktree and run:
//   go test -run TestVerifDemoRefreshRelock ./routingtable/adjRIBOut     (FAIL "blocked")
package adjRIBOut

import (
	"testing"
	"time"

	"github.com/bio-routing/bio-rd/net"
	"github.com/bio-routing/bio-rd/protocols/bgp/types"
	"github.com/bio-routing/bio-rd/route"
	"github.com/bio-routing/bio-rd/routingtable"
	"github.com/bio-routing/bio-rd/routingtable/filter"
	"github.com/bio-routing/bio-rd/routingtable/locRIB"
)

// An export policy change on an add-path session while the Loc-RIB holds a
// route that must not be propagated to the peer (NO_ADVERTISE): RefreshRoute
// runs with the Adj-RIB-Out lock held (taken by ReplaceFilterChain) and calls
// checkPropagateUpdate, which calls removePathsForPrefix, which locks it again.
func TestVerifDemoRefreshRelock(t *testing.T) {
	sa := routingtable.SessionAttrs{
		Type:      route.BGPPathType,
		LocalIP:   net.IPv4FromOctets(127, 0, 0, 1).Ptr(),
		PeerIP:    net.IPv4FromOctets(127, 0, 0, 2).Ptr(),
		LocalASN:  41981,
		AddPathTX: true,
	}
	rib := locRIB.New("demo")
	out := New(rib, sa, filter.NewAcceptAllFilterChain())
	rib.RegisterWithOptions(out, routingtable.ClientOptions{MaxPaths: 10})
	pfx := net.NewPfx(net.IPv4FromOctets(10, 0, 0, 0), 8).Ptr()
	rib.AddPath(pfx, &route.Path{Type: route.BGPPathType, BGPPath: &route.BGPPath{
		BGPPathA:    &route.BGPPathA{EBGP: true, Source: net.IPv4FromOctets(192, 0, 2, 1).Ptr(), NextHop: net.IPv4FromOctets(192, 0, 2, 1).Ptr()},
		ASPath:      &types.ASPath{{Type: types.ASSequence, ASNs: []uint32{65000}}},
		ASPathLen:   1,
		Communities: &types.Communities{types.WellKnownCommunityNoAdvertise},
	}})
	done := make(chan struct{})
	go func() {
		out.ReplaceFilterChain(filter.NewAcceptAllFilterChain())
		close(done)
	}()
	select {
	case <-done:
	case <-time.After(5 * time.Second):
		t.Fatal("blocked: ReplaceFilterChain -> RefreshClient -> RefreshRoute -> checkPropagateUpdate -> removePathsForPrefix locks a.mu, which ReplaceFilterChain holds")
	}
}
