// place in routingtable/locRIB
//
// Demonstration against the real code of a finding of the guarded-field
// contracts (property C26): SetCountTarget writes LocRIB.countTarget without
// the lock under which AddPath reads it.
//   go test -race -run TestVerifDemoCountTargetRace ./routingtable/locRIB
package locRIB

import (
	"sync"
	"testing"

	"github.com/bio-routing/bio-rd/net"
	"github.com/bio-routing/bio-rd/route"
)

func TestVerifDemoCountTargetRace(t *testing.T) {
	rib := New("demo")
	ch := make(chan struct{}, 1024)
	var wg sync.WaitGroup
	wg.Add(2)
	go func() {
		defer wg.Done()
		for i := 0; i < 200; i++ {
			rib.AddPath(net.NewPfx(net.IPv4FromOctets(10, 0, uint8(i), 0), 24).Ptr(), &route.Path{Type: route.StaticPathType, StaticPath: &route.StaticPath{NextHop: net.IPv4FromOctets(192, 0, 2, 1).Ptr()}})
		}
	}()
	go func() {
		defer wg.Done()
		for i := 0; i < 200; i++ {
			rib.SetCountTarget(100000, ch)
		}
	}()
	wg.Wait()
}
