// place in protocols/bgp/server
//
// Demonstration against the real code of a finding of the guarded-field
// contracts (property C26): readers of peer.fsms and FSM.state that do not hold
// the lock the writers hold. Copy into protocols/bgp/server of a scratch
// worktree and run:  go test -race -run TestVerifDemoPeerRaces ./protocols/bgp/server
package server

import (
	"sync"
	"testing"
	"time"

	bnet "github.com/bio-routing/bio-rd/net"
	"github.com/bio-routing/bio-rd/routingtable/filter"
	"github.com/bio-routing/bio-rd/routingtable/locRIB"
	"github.com/bio-routing/bio-rd/routingtable/vrf"
)

func TestVerifDemoPeerRaces(t *testing.T) {
	p := &peer{
		addr:     bnet.IPv4FromOctets(127, 0, 0, 1).Ptr(),
		routerID: bnet.IPv4FromOctets(1, 1, 1, 1).Ptr().ToUint32(),
		passive:  true,
		ipv4: &peerAddressFamily{
			rib:               locRIB.New("inet.0"),
			importFilterChain: filter.NewAcceptAllFilterChain(),
			exportFilterChain: filter.NewAcceptAllFilterChain(),
		},
		adjRIBInFactory: adjRIBInFactory{},
		vrf:             vrf.NewUntrackedVRF("vrf0", 0),
	}
	fsm := NewActiveFSM(p)
	p.fsms = []*FSM{fsm}
	var wg sync.WaitGroup
	wg.Add(2)
	// the FSM's own goroutine: writes fsm.state under stateMu on every transition
	go fsm.run()
	go func() {
		defer wg.Done()
		for i := 0; i < 2000; i++ {
			metricsForPeer(p) // reads fsm.state before taking stateMu, and p.fsms without fsmsMu
		}
	}()
	go func() {
		defer wg.Done()
		// what the listener does for an incoming connection (server.go, incomingConnectionWorker)
		for i := 0; i < 50; i++ {
			f2 := NewActiveFSM(p)
			p.fsmsMu.Lock()
			p.fsms = append(p.fsms, f2)
			p.fsmsMu.Unlock()
		}
	}()
	fsm.eventCh <- ManualStart // idle -> connect: fsm.state is written
	wg.Wait()
	time.Sleep(50 * time.Millisecond)
}
