// place in routingtable/adjRIBOut
//
// Demonstration of a defect seen while reading for C08 (a property that is NOT
// claimed: no check of /verif reports this): on an eBGP session (or a route
// reflector client session) AdjRIBOut.RemovePath looks the withdrawn path up
// without the rewrites AddPath applied before storing it (AS path prepend, next
// hop, ORIGINATOR_ID/CLUSTER_LIST), does not find it, and leaves it in the
// Adj-RIB-Out although the peer is told to withdraw it.
//   go test -run TestVerifDemoEBGPRemoveLeavesStalePath ./routingtable/adjRIBOut
package adjRIBOut

import (
	"testing"

	"github.com/bio-routing/bio-rd/net"
	"github.com/bio-routing/bio-rd/protocols/bgp/types"
	"github.com/bio-routing/bio-rd/route"
	"github.com/bio-routing/bio-rd/routingtable"
	"github.com/bio-routing/bio-rd/routingtable/filter"
)

func TestVerifDemoEBGPRemoveLeavesStalePath(t *testing.T) {
	sa := routingtable.SessionAttrs{Type: route.BGPPathType, LocalIP: net.IPv4FromOctets(127, 0, 0, 1).Ptr(), PeerIP: net.IPv4FromOctets(127, 0, 0, 2).Ptr(), LocalASN: 41981}
	out := New(nil, sa, filter.NewAcceptAllFilterChain())
	pfx := net.NewPfx(net.IPv4FromOctets(10, 0, 0, 0), 8).Ptr()
	mk := func() *route.Path {
		return &route.Path{Type: route.BGPPathType, BGPPath: &route.BGPPath{
			BGPPathA: &route.BGPPathA{EBGP: true, Source: net.IPv4FromOctets(192, 0, 2, 1).Ptr(), NextHop: net.IPv4FromOctets(192, 0, 2, 1).Ptr()},
			ASPath:   &types.ASPath{{Type: types.ASSequence, ASNs: []uint32{65000}}}, ASPathLen: 1}}
	}
	out.AddPath(pfx, mk())
	if out.RouteCount() != 1 {
		t.Fatalf("setup: %d routes", out.RouteCount())
	}
	out.RemovePath(pfx, mk())
	if out.RouteCount() != 0 {
		t.Fatalf("the Adj-RIB-Out still holds %d route(s) after the path was removed", out.RouteCount())
	}
}
