#!/bin/bash
# runall.sh [tier] [ids...]: run the quick (or given tier) check of every claimed property, 3 at a time; one summary line each.
cd "$(dirname "$0")"
TIER="${1:-quick}"; shift
ids="$@"; [ -z "$ids" ] && ids=$(jq -r 'to_entries[]|select(.value.claimed)|.key' props.json)
mkdir -p .work/runall
run1() { p=$1; s=$(date +%s); ./check $p $TIER > .work/runall/$p.log 2>&1; e=$?; echo "$p exit=$e $(( $(date +%s)-s ))s $(grep -E '^property' .work/runall/$p.log | cut -c1-150)"; grep -E '^VIOLATION|^KNOWN|BROKEN' .work/runall/$p.log | cut -c1-220; }
export -f run1; export TIER
echo $ids | tr ' ' '\n' | xargs -P 3 -I{} bash -c 'run1 {}'
