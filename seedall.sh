#!/bin/bash
# seedall.sh [ids...]: run every seeded change against the check of its property (and the extra
# properties listed in meta.json "also"). Works on a scratch worktree of /repo's HEAD (so /repo and
# the evidence files are left alone); the verifier is pointed at it with -repo. Equivalent to
# seedtest.sh, which applies the change to /repo itself.
WT=/tmp/wt-seed-$$
SV=/tmp/seed-verif-$$
mkdir -p $SV; cp /verif/known_findings.json $SV/; cp -r /verif/contracts_mirror /verif/bounded $SV/ 2>/dev/null
git -C /repo worktree add -q --detach $WT HEAD || exit 2
export GOFLAGS=-mod=mod GOPROXY=off GOSUMDB=off GOTOOLCHAIN=local
ids="$@"; [ -z "$ids" ] && ids=$(ls -d /verif/seeded/C*-* | xargs -n1 basename)
for id in $ids; do
  d=/verif/seeded/$id; p=${id%-*}
  also=$(jq -r '(.also // []) | join(" ")' $d/meta.json 2>/dev/null)
  echo "##### $id"
  ( cd $WT && git apply $d/patch.diff ) || { echo "patch does not apply"; continue; }
  for q in $p $also; do
    /verif/bin/govc run -repo $WT -verif $SV -prop $q -tier quick 2>&1 | grep -E "^VIOLATION|^property|KNOWN|BROKEN" | sed "s#replay=$SV/##" | cut -c1-240
  done
  git -C $WT checkout -q -- . ; git -C $WT clean -fdq
done
git -C /repo worktree remove --force $WT; rm -rf $SV
