#!/bin/bash
# seedall.sh: run every seeded change against the check of its property (and extra properties listed in meta.json "also")
for d in /verif/seeded/C*-*/; do
  id=$(basename $d); p=${id%-*}
  also=$(jq -r '(.also // []) | join(" ")' $d/meta.json 2>/dev/null)
  echo "##### $id"
  /verif/seedtest.sh $p $d/patch.diff $also
done
