package main

import (
	"fmt"
	"go/types"
	"path/filepath"
	"sort"
	"strings"

	"golang.org/x/tools/go/ssa"
)

// funcKey gives the contract key of an SSA function ("(*T).M", "T.M", "F").
func funcKey(f *ssa.Function) string {
	if f.Signature.Recv() != nil {
		rt := f.Signature.Recv().Type()
		if p, ok := rt.(*types.Pointer); ok {
			if n, ok := p.Elem().(*types.Named); ok {
				return "(*" + n.Obj().Name() + ")." + f.Name()
			}
		}
		if n, ok := rt.(*types.Named); ok {
			return n.Obj().Name() + "." + f.Name()
		}
	}
	return f.Name()
}

func (eng *Engine) pkgDirOf(f *ssa.Function) (string, bool) {
	if f.Pkg == nil {
		return "", false
	}
	p := f.Pkg.Pkg.Path()
	if !strings.HasPrefix(p, modulePath) {
		return "", false
	}
	d := strings.TrimPrefix(strings.TrimPrefix(p, modulePath), "/")
	if d == "" {
		d = "."
	}
	return filepath.FromSlash(d), true
}

// inlinable: small loop-free module functions are verified in the context of
// their callers (by inlining) instead of getting a contract of their own.
func (eng *Engine) inlinable(f *ssa.Function) bool {
	if len(f.Blocks) == 0 {
		return false
	}
	li := eng.loopInfo(f)
	return li.rpo != nil && len(li.list) == 0 && countInstrs(f) <= eng.maxInlineInstrs
}

// applySweeps creates default contracts for the functions reachable from the
// sweep roots.
func (eng *Engine) applySweeps() error {
	n := 0
	var dirs []string
	for d := range eng.specs {
		dirs = append(dirs, d)
	}
	sort.Strings(dirs)
	for _, dir := range dirs {
		ps := eng.specs[dir]
		path := modulePath
		if dir != "." {
			path = modulePath + "/" + filepath.ToSlash(dir)
		}
		sp := eng.pkgs[path]
		if sp == nil {
			continue
		}
		for _, sw := range ps.sweeps {
			root := eng.lookupFunc(sp, sw.Root)
			if root == nil {
				return fmt.Errorf("%s: sweep root %s not found", dir, sw.Root)
			}
			seen := map[*ssa.Function]bool{}
			var order []*ssa.Function
			var visit func(f *ssa.Function)
			visit = func(f *ssa.Function) {
				if seen[f] || !inModule(f) || len(f.Blocks) == 0 {
					return
				}
				seen[f] = true
				order = append(order, f)
				_, callees := eng.directMods(f, nil)
				for _, c := range callees {
					visit(c)
				}
				// module functions hidden behind models are not followed
			}
			visit(root)
			for _, f := range order {
				if f.Parent() != nil || f.Synthetic != "" {
					continue // closures are executed with their parent; wrappers are synthetic
				}
				if ct := eng.contracts[f]; ct != nil {
					// explicit contract: make it count for the sweep's properties too
					for _, p := range sw.Props {
						if !hasProp(ct, p) {
							ct.Props = append(ct.Props, p)
						}
					}
					if sw.AllocBuf && ct.AllocBound == 0 && ct.AllocExpr == nil {
						ct.AllocBuf = true
					}
					if sw.Frame {
						ct.SweepFrame = true
					}
					continue
				}
				if f != root && eng.inlinable(f) {
					continue
				}
				if eng.modelFor(f) != nil {
					continue
				}
				d, ok := eng.pkgDirOf(f)
				if !ok {
					continue
				}
				n++
				ct := &Contract{ID: fmt.Sprintf("a%d", n), PkgDir: d, PkgPath: f.Pkg.Pkg.Path(), Key: funcKey(f), Props: append([]string{}, sw.Props...),
					Loops: map[int]*LoopSpec{}, Fn: f, Auto: true, AllocBuf: sw.AllocBuf, SweepFrame: sw.Frame}
				eng.contracts[f] = ct
				eng.byKey[ct.FullKey()] = ct
				tps := eng.specs[d]
				if tps == nil {
					tps = &pkgSpec{dir: d, name: f.Pkg.Pkg.Name(), source: "auto"}
					eng.specs[d] = tps
				}
				tps.contracts = append(tps.contracts, ct)
			}
		}
	}
	return nil
}
