package main

import (
	"fmt"
	"go/token"
	"go/types"
	"sort"
	"strconv"
	"strings"

	"golang.org/x/tools/go/ssa"
)

// ---------------------------------------------------------------------------
// Locks (contract option `locks`): sync.Mutex / sync.RWMutex as ghost hold
// counters of the executing thread. The model is sequential: it decides what one
// thread does to the locks it takes -
//   relock   Lock while this thread holds the mutex (read or write): self-deadlock
//   unlock   Unlock / RUnlock of a mutex this thread does not hold: run-time fatal error
//   balance  at every return the hold counters are what they were on entry
//            (an early return with the lock held blocks every later caller)
//   guard    an access to a field declared `guarded T.f by mu` is made while
//            holding T.mu of the same object (write lock for stores)
// It does not decide lock ORDER between different mutexes, nor blocking on channels.
// A mutex is identified by the heap cell it lives in (struct field key + object).
// Calls are assumed lock-neutral: every function under contract with `locks` is
// proved balanced, the others are assumed to be.
// ---------------------------------------------------------------------------

type lockID struct {
	key  string // heap key of the mutex field ("" for a mutex that is not a field)
	w, r string // ghost heap keys: write-hold flag, read-hold count
	ref  string
	name string
}

func (vc *VC) lockOf(v Val) (lockID, bool) {
	l := vc.locOf(v)
	var id string
	switch {
	case l.Kind == locField && len(l.Path) == 0:
		id = l.Key
	case l.Kind == locStruct && len(l.Path) == 0:
		id = "obj|" + typeKey(l.CellT)
	default:
		return lockID{}, false
	}
	name := id
	if f := strings.Split(id, "|"); len(f) == 3 && f[0] == "F" {
		name = f[1] + "." + f[2]
		for _, nt := range vc.eng.allNamed {
			if stt, ok := nt.Underlying().(*types.Struct); ok && vc.sorts().structKey(nt) == f[1] {
				if k, err := strconv.Atoi(f[2]); err == nil && k < stt.NumFields() {
					name = f[1] + "." + stt.Field(k).Name()
				}
			}
		}
	}
	name = strings.TrimPrefix(name, modulePath+"/")
	lk := lockID{key: id, w: "Gl|w|" + id, r: "Gl|r|" + id, ref: l.Ref, name: name}
	vc.regHeap(lk.w, "(Array (_ BitVec 64) (_ BitVec 8))", nil)
	vc.regHeap(lk.r, "(Array (_ BitVec 64) (_ BitVec 8))", nil)
	return lk, true
}

func (vc *VC) lockObl(fr *Frame, kind string, reach, goal string, pos token.Pos) {
	if !vc.lockObls {
		return
	}
	root := fr.oblFn()
	base := fmt.Sprintf("lock:%s:%s", root, kind)
	ord := vc.callOrd[base]
	vc.callOrd[base]++
	o := vc.addObl("lock", root, fmt.Sprintf("%s#%d", base, ord), reach, goal, pos)
	vc.assume(o.Goal)
}

func (fr *Frame) lockOp(name string, b *ssa.BasicBlock, c *ssa.CallCommon, args []Val, st *State, reach string, pos token.Pos) *Val {
	vc := fr.vc
	if !vc.locksOn || fr.pure || len(args) == 0 {
		vc.trust("model: sync primitives are no-ops for the sequential semantics")
		return nil
	}
	if strings.Contains(name, "WaitGroup") || strings.Contains(name, "Once") {
		return nil
	}
	lk, ok := vc.lockOf(args[0])
	if !ok {
		vc.note("lock operation on a mutex that is not a plain field or object: not tracked")
		return nil
	}
	if vc.locksTouched == nil {
		vc.locksTouched = map[string]lockID{}
	}
	vc.locksTouched[lk.w+"@"+lk.ref] = lk
	w := vc.readCell(st, lk.w, lk.ref)
	r := vc.readCell(st, lk.r, lk.ref)
	zero, one := bvConst(0, 8), bvConst(1, 8)
	if lv, ok := vc.eng.lockLevels[lk.key]; ok {
		ck := lockCounterKey(lk.key)
		vc.regHeap(ck, "(Array (_ BitVec 64) (_ BitVec 8))", nil)
		cnt := vc.readCell(st, ck, lockCounterRef)
		if strings.HasSuffix(name, "Lock") && !strings.HasSuffix(name, "nlock") {
			vc.orderObl(fr, st, lv.level, lv.name, reach, pos)
			vc.writeCell(st, ck, lockCounterRef, app("bvadd", cnt, one))
		} else {
			vc.writeCell(st, ck, lockCounterRef, app("bvsub", cnt, one))
		}
	} else if vc.lockObls {
		vc.note("mutex " + lk.name + " has no declared level: its place in the lock order is not checked")
	}
	switch {
	case strings.HasSuffix(name, ").Lock"):
		vc.lockObl(fr, "relock", reach, sAnd(sEq(w, zero), sEq(r, zero)), pos)
		vc.writeCell(st, lk.w, lk.ref, one)
	case strings.HasSuffix(name, ").Unlock"):
		vc.lockObl(fr, "unlock", reach, sNot(sEq(w, zero)), pos)
		vc.writeCell(st, lk.w, lk.ref, zero)
	case strings.HasSuffix(name, ").RLock"):
		vc.lockObl(fr, "relock", reach, sEq(w, zero), pos)
		vc.writeCell(st, lk.r, lk.ref, app("bvadd", r, one))
	case strings.HasSuffix(name, ").RUnlock"):
		vc.lockObl(fr, "unlock", reach, app("bvuge", r, one), pos)
		vc.writeCell(st, lk.r, lk.ref, app("bvsub", r, one))
	}
	return nil
}

// lockBalance: at every return site the hold counters of every mutex the
// function touched are what they were on entry.
func (vc *VC) lockBalance(entry *State, fnPos token.Pos) {
	if !vc.locksOn || !vc.lockObls {
		return
	}
	for _, k := range sortedKeys(vc.locksTouched) {
		lk := vc.locksTouched[k]
		var parts []string
		for _, r := range vc.rootRets {
			if r.cond == "false" {
				continue
			}
			g := sAnd(sEq(vc.readCell(r.st, lk.w, lk.ref), vc.readCell(entry, lk.w, lk.ref)),
				sEq(vc.readCell(r.st, lk.r, lk.ref), vc.readCell(entry, lk.r, lk.ref)))
			parts = append(parts, sImp(r.cond, g))
		}
		o := vc.addObl("lock", vc.rootKey, fmt.Sprintf("lock:%s:balance:%s", vc.rootKey, lk.name), "true", vc.def("Bool", "balance", sAnd(parts...)), fnPos)
		o.Clause = "the mutex is held at return exactly as at entry"
	}
}

// lockLoopBalance: loops are cut at their head with the lock state kept, so
// each iteration has to leave the hold counters as it found them.
func (vc *VC) lockLoopBalance(fr *Frame, head, st *State, cond string, l *Loop) {
	if !vc.lockObls {
		return
	}
	var parts []string
	for _, k := range sortedKeys(vc.locksTouched) {
		lk := vc.locksTouched[k]
		parts = append(parts, sEq(vc.readCell(st, lk.w, lk.ref), vc.readCell(head, lk.w, lk.ref)), sEq(vc.readCell(st, lk.r, lk.ref), vc.readCell(head, lk.r, lk.ref)))
		if _, ok := vc.eng.lockLevels[lk.key]; ok {
			ck := lockCounterKey(lk.key)
			parts = append(parts, sEq(vc.readCell(st, ck, lockCounterRef), vc.readCell(head, ck, lockCounterRef)))
		}
	}
	if len(parts) == 0 {
		return
	}
	root := fr.oblFn()
	o := vc.addObl("lock", root, fmt.Sprintf("lock:%s:loop-balance:L%d", root, l.ordinal), cond, sAnd(parts...), l.pos)
	o.Clause = "an iteration leaves every mutex held exactly as it found it"
}

// heldPredicate: verif_wheld(&x.mu) / verif_rheld(&x.mu) / verif_held(&x.mu)
func (fr *Frame) heldPredicate(name string, args []Val, st *State) *Val {
	vc := fr.vc
	lk, ok := vc.lockOf(args[0])
	if !ok {
		panic(unsupported(name + ": argument is not the address of a mutex field"))
	}
	w := sNot(sEq(vc.readCell(st, lk.w, lk.ref), bvConst(0, 8)))
	r := app("bvuge", vc.readCell(st, lk.r, lk.ref), bvConst(1, 8))
	var t string
	switch {
	case strings.HasPrefix(name, "verif_wheld["):
		t = w
	case strings.HasPrefix(name, "verif_rheld["):
		t = r
	default:
		t = sOr(w, r)
	}
	return &Val{T: types.Typ[types.Bool], S: t}
}

// guardCheck: an access to a guarded field.
func (fr *Frame) guardCheck(l *Loc, st *State, reach string, pos token.Pos, store bool) {
	vc := fr.vc
	if !vc.locksOn || !vc.guardObls || fr.pure || l.Kind != locField || len(l.Path) != 0 {
		return
	}
	g, ok := vc.eng.guarded[l.Key]
	if !ok {
		return
	}
	wkey, rkey := "Gl|w|"+g.muKey, "Gl|r|"+g.muKey
	vc.regHeap(wkey, "(Array (_ BitVec 64) (_ BitVec 8))", nil)
	vc.regHeap(rkey, "(Array (_ BitVec 64) (_ BitVec 8))", nil)
	w := sNot(sEq(vc.readCell(st, wkey, l.Ref), bvConst(0, 8)))
	goal := w
	kind := "guard-write"
	if !store {
		goal = sOr(w, app("bvuge", vc.readCell(st, rkey, l.Ref), bvConst(1, 8)))
		kind = "guard-read"
	}
	if vc.frame.next0 != "" {
		// an object allocated during this call is not shared yet (constructors
		// inlined into the function): no lock is needed to touch it
		goal = sOr(goal, app("bvuge", l.Ref, vc.frame.next0))
	}
	root := fr.oblFn()
	base := fmt.Sprintf("lock:%s:%s:%s", root, kind, g.name)
	ord := vc.callOrd[base]
	vc.callOrd[base]++
	o := vc.addObl("lock", root, fmt.Sprintf("%s#%d", base, ord), reach, goal, pos)
	o.Clause = g.name + " is accessed while its mutex is held"
}

type lockLevel struct {
	level int
	name  string
}

const lockCounterRef = "(_ bv0 64)"

func lockCounterKey(muKey string) string { return "Gl|c|" + muKey }

// heldFrom: "this thread holds a lock of level >= n" over the declared lock classes.
func (vc *VC) noneHeldFrom(st *State, n int) string {
	var parts []string
	for _, k := range sortedKeys(vc.eng.lockLevels) {
		if vc.eng.lockLevels[k].level < n {
			continue
		}
		ck := lockCounterKey(k)
		vc.regHeap(ck, "(Array (_ BitVec 64) (_ BitVec 8))", nil)
		parts = append(parts, sEq(vc.readCell(st, ck, lockCounterRef), bvConst(0, 8)))
	}
	return sAnd(parts...)
}

// assumeAcquires: entry assumption of a contract with `acquires n`: no lock of
// level >= n is held (by class counter and object by object).
func (vc *VC) assumeAcquires(st *State, n int) {
	vc.assume(vc.noneHeldFrom(st, n))
	for _, k := range sortedKeys(vc.eng.lockLevels) {
		if vc.eng.lockLevels[k].level < n {
			continue
		}
		for _, hk := range []string{"Gl|w|" + k, "Gl|r|" + k} {
			vc.regHeap(hk, "(Array (_ BitVec 64) (_ BitVec 8))", nil)
			vc.assume(fmt.Sprintf("(= %s ((as const (Array (_ BitVec 64) (_ BitVec 8))) %s))", vc.heapVer(st, hk), bvConst(0, 8)))
		}
	}
}

// orderObl: about to take locks of level >= n (a Lock, or a call of a function
// with `acquires n`): nothing of level >= n is held, and the function under
// contract said it takes locks of that level.
func (vc *VC) orderObl(fr *Frame, st *State, n int, what string, reach string, pos token.Pos) {
	if !vc.locksOn || !vc.lockObls || fr.pure {
		return
	}
	root := fr.oblFn()
	base := fmt.Sprintf("lock:%s:order", root)
	ord := vc.callOrd[base]
	vc.callOrd[base]++
	goal := vc.noneHeldFrom(st, n)
	if rc := vc.rootContract; rc != nil && rc.HasAcquires && n < rc.Acquires {
		goal = "false" // takes a lock below the level the contract declares
	}
	o := vc.addObl("lock", root, fmt.Sprintf("%s#%d", base, ord), reach, goal, pos)
	o.Clause = "lock order: " + what + " (level " + itoa(n) + ") is taken with no lock of that level or above held"
}

// ifaceLevelCheck: a method under contract that implements an interface method
// whose contract says `acquires n` must itself declare a level of at least n
// (callers through the interface rely on it).
func (vc *VC) ifaceLevelCheck(fn *ssa.Function, ct *Contract) {
	if !vc.lockObls || fn.Signature.Recv() == nil {
		return
	}
	rt := fn.Signature.Recv().Type()
	for _, m := range sortedFuncs(vc.eng.ifaceContracts) {
		ic := vc.eng.ifaceContracts[m]
		if !ic.HasAcquires || m.Name() != fn.Name() {
			continue
		}
		it, ok := m.Type().(*types.Signature).Recv().Type().Underlying().(*types.Interface)
		if !ok || !types.Implements(rt, it) {
			continue
		}
		goal := "true"
		if !ct.HasAcquires || ct.Acquires < ic.Acquires {
			goal = "false"
		}
		o := vc.addObl("lock", vc.rootKey, fmt.Sprintf("lock:%s:iface-level:%s", vc.rootKey, ic.Key), "true", goal, fn.Pos())
		o.Clause = fmt.Sprintf("implements %s (acquires %d): declares a level of at least that", ic.Key, ic.Acquires)
	}
}

func sortedFuncs(m map[*types.Func]*Contract) []*types.Func {
	var fs []*types.Func
	for f := range m {
		fs = append(fs, f)
	}
	sort.Slice(fs, func(i, j int) bool { return fs[i].FullName() < fs[j].FullName() })
	return fs
}

// blockObl (contract option `noblock`): an operation that may wait for another
// goroutine (channel send or receive, select without default) is made with no
// levelled lock held - the goroutine waited for may itself be waiting for that lock.
func (vc *VC) blockObl(fr *Frame, st *State, reach string, pos token.Pos, what string) {
	if !vc.locksOn || !vc.lockObls || fr.pure || vc.rootContract == nil || !vc.rootContract.NoBlock {
		return
	}
	root := fr.oblFn()
	base := fmt.Sprintf("lock:%s:blocking", root)
	ord := vc.callOrd[base]
	vc.callOrd[base]++
	o := vc.addObl("lock", root, fmt.Sprintf("%s#%d", base, ord), reach, vc.noneHeldFrom(st, 0), pos)
	o.Clause = what + " with no lock held (the other side may be waiting for the lock)"
}

// takesLocks: does f (or a static callee inside the module, a few levels down) call a sync lock operation?
func (eng *Engine) takesLocks(f *ssa.Function, depth int, seen map[*ssa.Function]bool) bool {
	if seen[f] || depth > 6 {
		return false
	}
	seen[f] = true
	for _, b := range f.Blocks {
		for _, ins := range b.Instrs {
			ci, ok := ins.(ssa.CallInstruction)
			if !ok {
				continue
			}
			if _, isGo := ins.(*ssa.Go); isGo {
				continue
			}
			g, ok := ci.Common().Value.(*ssa.Function)
			if !ok {
				continue
			}
			if n := g.String(); strings.HasPrefix(n, "(*sync.Mutex).") || strings.HasPrefix(n, "(*sync.RWMutex).") {
				return true
			}
			if inModule(g) && eng.takesLocks(g, depth+1, seen) {
				return true
			}
		}
	}
	return false
}

// guardContents: a write into the map held by a guarded field (m[k] = v,
// delete(m, k) with m read directly from the field) needs the write lock, not
// just the lock the read of the field needs.
func (fr *Frame) guardContents(m ssa.Value, st *State, reach string, pos token.Pos) {
	vc := fr.vc
	if !vc.locksOn || !vc.guardObls || fr.pure {
		return
	}
	u, ok := m.(*ssa.UnOp)
	if !ok || u.Op != token.MUL {
		return
	}
	fa, ok := u.X.(*ssa.FieldAddr)
	if !ok {
		return
	}
	l := vc.locOf(fr.get(fa))
	fr.guardCheck(l, st, reach, pos, true)
}

type guardInfo struct {
	muKey string
	name  string
}
