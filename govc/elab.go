package main

import (
	"bytes"
	"fmt"
	"go/ast"
	"go/build"
	"go/parser"
	"go/printer"
	"go/token"
	"go/types"
	"os"
	"path/filepath"
	"sort"
	"strconv"
	"strings"

	"golang.org/x/tools/go/ssa"
)

// ---------------------------------------------------------------------------
// Contracts: parsed from comment-only files <pkg>/zz_contracts_verif.go and
// elaborated into one synthetic Go file per package (overlay only).
// ---------------------------------------------------------------------------

type Clause struct {
	Text   string
	FnName string
	Fn     *ssa.Function
	Locals []string // loop clauses: names of the local variables passed after the params
	Line   int
	Props  []string // clause-level property tags: the obligation counts only for these properties
}

// CallSpec: an obligation that must hold at every call of a function or method
// with the given name inside the function under contract; the clause speaks
// about the function's parameters and the call's arguments.
type CallSpec struct {
	Name   string
	Args   [][2]string // names and types of the call arguments (in order)
	Vars   [][2]string // locals of the enclosing function read at the call site
	Clause *Clause
}

type LoopSpec struct {
	Vars       [][2]string // name, type
	Invariants []*Clause
	Decreases  *Clause
}

type OldBinding struct {
	Name, Type string
	Clause     *Clause
}

type Contract struct {
	ID         string // c<N>
	PkgDir     string // directory relative to the module root, e.g. "net"
	PkgPath    string
	Key        string // (*Prefix).containsIPv6 | Prefix.Dedup | IPv4FromOctets | lemma:name
	Props      []string
	Requires   []*Clause
	Ensures    []*Clause
	Olds       []*OldBinding
	Def        *Clause     // `ensures result == E`: E as a function of the parameters (used for calls in specifications)
	Logicals   [][2]string // logical variables (name, type): the contract holds for every value of them
	Loops      map[int]*LoopSpec
	ModNothing bool
	Modifies   []*Clause
	PreserveTypes []string // struct types (of the contract's package) none of whose objects is written
	Preserves  []*Clause // objects left unchanged (the rest of the heap is forgotten); assumed, for trusted contracts
	AllocBound int
	AllocExpr  *Clause // bound as an int expression over the parameters (entry state)
	AllocBuf   bool    // bound = bytes unread in the *bytes.Buffer parameter on entry (sweep option)
	Trusted    bool
	Auto       bool // default contract created by a sweep directive
	NonNil     bool // all pointer parameters are required to be non-nil
	Exhaustive bool // decided by running the real function on every input of its (small) domain
	Calls      []*CallSpec // obligations at call sites inside the function
	Locks      bool        // model the hold state of mutexes (locks.go)
	Acquires    int        // see locks.go
	HasAcquires bool
	NoBlock    bool        // see locks.go
	Counts     []string    // counts f,...: static calls of the named functions bump the ghost call counter of their first (pointer) argument (ghost.go)
	LockProps  []string    // properties whose runs get the relock/unlock/balance obligations
	GuardProps []string    // properties whose runs get the guarded-field obligations
	Split      bool        // prove postconditions separately for each way into a return
	SafetyOnly []string    // with NoSafety: kinds of safety obligations that are generated all the same
	NoSafety   bool        // do not generate safety obligations (absence of panics is assumed)
	NoConn     bool        // assumed not to touch the ghost state of connections
	SweepFrame bool        // default frame from a sweep with option frame: pointer parameters and fresh objects only
	NilRecv    bool
	IsLemma    bool
	LemmaSig   string
	LemmaMode  string // "", or "inline": expand real functions by their bodies
	Fn         *ssa.Function
	IfaceMethod *types.Func // contract of an interface method: assumed of every implementation
	Line       int
	Notes      []string
	ParamNames []string // names of receiver+params in the elaborated functions
	ResNames   []string
}

func (c *Contract) FullKey() string { return c.PkgDir + "." + c.Key }

type pkgSpec struct {
	dir       string // relative dir
	name      string // package name
	imports   []string
	specCode  []string
	contracts []*Contract
	source    string // "repo" or "mirror"
	sweeps    []sweepSpec
	guards    [][2]string // (Type.field, mutex field)
	levels    [][2]string // (Type.mutex field, level)
}

type sweepSpec struct {
	Root     string
	Props    []string
	Line     int
	AllocBuf bool
	Frame    bool
}

const contractFile = "zz_contracts_verif.go"
const elabFile = "zz_verif_elab_gen.go"

// readContracts reads every contract file under repo (falling back to the
// mirror for files that are missing there).
func readContracts(repo, mirror string) (map[string]*pkgSpec, error) {
	res := map[string]*pkgSpec{}
	seen := map[string]bool{}
	add := func(root, src string) error {
		return filepath.Walk(root, func(p string, info os.FileInfo, err error) error {
			if err != nil {
				return nil
			}
			if info.IsDir() {
				n := info.Name()
				if n == ".git" || n == "vendor" || n == "node_modules" {
					return filepath.SkipDir
				}
				return nil
			}
			if info.Name() != contractFile {
				return nil
			}
			rel, _ := filepath.Rel(root, filepath.Dir(p))
			if seen[rel] {
				return nil
			}
			seen[rel] = true
			data, err := os.ReadFile(p)
			if err != nil {
				return err
			}
			ps, err := parseContractFile(rel, string(data))
			if err != nil {
				return fmt.Errorf("%s: %v", p, err)
			}
			ps.source = src
			res[rel] = ps
			return nil
		})
	}
	if err := add(repo, "repo"); err != nil {
		return nil, err
	}
	if mirror != "" {
		if err := add(mirror, "mirror"); err != nil {
			return nil, err
		}
	}
	n := 0
	var dirs []string
	for d := range res {
		dirs = append(dirs, d)
	}
	sort.Strings(dirs)
	for _, d := range dirs {
		for _, c := range res[d].contracts {
			n++
			c.ID = fmt.Sprintf("c%d", n)
		}
	}
	return res, nil
}

func parseContractFile(rel, src string) (*pkgSpec, error) {
	ps := &pkgSpec{dir: rel}
	var lines []string
	var lineNos []int
	for i, l := range strings.Split(src, "\n") {
		t := strings.TrimSpace(l)
		if strings.HasPrefix(t, "package ") && ps.name == "" {
			ps.name = strings.TrimSpace(strings.TrimPrefix(t, "package "))
			continue
		}
		if !strings.HasPrefix(t, "//@") {
			continue
		}
		body := strings.TrimPrefix(t, "//@")
		// continuation lines end with a backslash
		if len(lines) > 0 && strings.HasSuffix(lines[len(lines)-1], "\\") {
			lines[len(lines)-1] = strings.TrimSuffix(lines[len(lines)-1], "\\") + " " + strings.TrimSpace(body)
			continue
		}
		lines = append(lines, body)
		lineNos = append(lineNos, i+1)
	}
	// `contract A, B, C` followed by clauses stands for one contract per key with the same clauses
	{
		var nl []string
		var nn []int
		isTop := func(l string) bool {
			w, _ := splitWord(strings.TrimSpace(l))
			switch w {
			case "contract", "lemma", "spec", "sweep", "import", "end", "guarded", "locklevel":
				return true
			}
			return false
		}
		inS := false
		for i := 0; i < len(lines); i++ {
			t := strings.TrimSpace(lines[i])
			if inS {
				nl, nn = append(nl, lines[i]), append(nn, lineNos[i])
				if t == "end" {
					inS = false
				}
				continue
			}
			w, rest := splitWord(t)
			if w == "spec" {
				inS = true
			}
			if w == "contract" && strings.Contains(rest, ",") && len(splitTop(rest, ',')) > 1 {
				j := i + 1
				for j < len(lines) && !isTop(lines[j]) {
					j++
				}
				for _, k := range splitTop(rest, ',') {
					nl, nn = append(nl, " contract "+strings.TrimSpace(k)), append(nn, lineNos[i])
					for m := i + 1; m < j; m++ {
						nl, nn = append(nl, lines[m]), append(nn, lineNos[m])
					}
				}
				i = j - 1
				continue
			}
			nl, nn = append(nl, lines[i]), append(nn, lineNos[i])
		}
		lines, lineNos = nl, nn
	}
	var cur *Contract
	inSpec := false
	for i, raw := range lines {
		ln := lineNos[i]
		if inSpec {
			if strings.TrimSpace(raw) == "end" {
				inSpec = false
				continue
			}
			ps.specCode = append(ps.specCode, strings.TrimPrefix(raw, " "))
			continue
		}
		l := strings.TrimSpace(raw)
		if l == "" || strings.HasPrefix(l, "#") {
			continue
		}
		word, rest := splitWord(l)
		// clause-level property tags: ensures[C19 C17] <expr>
		var clauseProps []string
		if i := strings.Index(word, "["); i > 0 && !strings.HasSuffix(word, "]") {
			// tags contain spaces: rejoin up to the closing bracket
			j := strings.Index(l, "]")
			if j > 0 {
				clauseProps = strings.Fields(l[i+1 : j])
				word = word[:i]
				rest = strings.TrimSpace(l[j+1:])
			}
		} else if i > 0 && strings.HasSuffix(word, "]") {
			clauseProps = strings.Fields(word[i+1 : len(word)-1])
			word = word[:i]
		}
		switch word {
		case "spec":
			inSpec = true
			cur = nil
		case "import":
			ps.imports = append(ps.imports, rest)
		case "locklevel":
			// locklevel <Type>.<mutex field> <level>: see locks.go
			f := strings.Fields(rest)
			if len(f) != 2 || !strings.Contains(f[0], ".") {
				return nil, fmt.Errorf("%s:%d: locklevel <Type>.<mutex field> <level>", rel, ln)
			}
			if _, err := strconv.Atoi(f[1]); err != nil {
				return nil, fmt.Errorf("%s:%d: locklevel: level must be a number", rel, ln)
			}
			ps.levels = append(ps.levels, [2]string{f[0], f[1]})
			cur = nil
		case "guarded":
			// guarded <Type>.<field> by <mutex field>: see locks.go
			f := strings.Fields(rest)
			if len(f) != 3 || f[1] != "by" || !strings.Contains(f[0], ".") {
				return nil, fmt.Errorf("%s:%d: guarded <Type>.<field> by <mutex field>", rel, ln)
			}
			ps.guards = append(ps.guards, [2]string{f[0], f[2]})
			cur = nil
		case "contract":
			// several blocks for the same function are merged into one contract
			cur = nil
			for _, c := range ps.contracts {
				if c.Key == rest && !c.IsLemma {
					cur = c
				}
			}
			if cur == nil {
				cur = &Contract{PkgDir: rel, Key: rest, Loops: map[int]*LoopSpec{}, Line: ln}
				ps.contracts = append(ps.contracts, cur)
			}
		case "sweep":
			// sweep <root function key> props C16 ... : every module function
			// reachable from the root gets a default (safety-only) contract
			key, r2 := splitWord(rest)
			w, r3 := splitWord(r2)
			sw := sweepSpec{Root: key, Line: ln}
			if w == "props" {
				for _, f := range strings.Fields(r3) {
					if f == "allocbuf" {
						sw.AllocBuf = true
					} else if f == "frame" {
						sw.Frame = true
					} else {
						sw.Props = append(sw.Props, f)
					}
				}
			}
			ps.sweeps = append(ps.sweeps, sw)
			cur = nil
		case "lemma":
			name, sig := splitWord(rest)
			cur = &Contract{PkgDir: rel, Key: "lemma:" + name, IsLemma: true, LemmaSig: sig, Loops: map[int]*LoopSpec{}, Line: ln}
			ps.contracts = append(ps.contracts, cur)
		default:
			if cur == nil {
				return nil, fmt.Errorf("line %d: clause %q outside a contract", ln, word)
			}
			switch word {
			case "props":
				cur.Props = append(cur.Props, strings.Fields(rest)...)
			case "requires":
				dup := false
				for _, r := range cur.Requires {
					if r.Text == rest {
						dup = true
					}
				}
				if !dup {
					cur.Requires = append(cur.Requires, &Clause{Text: rest, Line: ln})
				}
			case "ensures":
				cur.Ensures = append(cur.Ensures, &Clause{Text: rest, Line: ln, Props: clauseProps})
			case "old":
				// old <name> <type> = <expr>
				eq := strings.Index(rest, "=")
				if eq < 0 {
					return nil, fmt.Errorf("line %d: old needs name type = expr", ln)
				}
				name, typ := splitWord(strings.TrimSpace(rest[:eq]))
				cur.Olds = append(cur.Olds, &OldBinding{Name: name, Type: typ, Clause: &Clause{Text: strings.TrimSpace(rest[eq+1:]), Line: ln}})
			case "logical":
				// logical <name> <type>: a variable the old bindings, postconditions and
				// loop invariants may mention; they hold for every value of it
				n, t := splitWord(rest)
				cur.Logicals = append(cur.Logicals, [2]string{n, t})
			case "modifies":
				if rest == "nothing" {
					cur.ModNothing = true
				} else {
					for _, e := range splitTop(rest, ',') {
						cur.Modifies = append(cur.Modifies, &Clause{Text: strings.TrimSpace(e), Line: ln})
					}
				}
			case "preserves":
				// objects the call leaves unchanged, whatever else it does (only in trusted contracts)
				if w, r := splitWord(rest); w == "type" {
					// preserves type T1, T2: no object of these struct types is written
					for _, t := range splitTop(r, ',') {
						cur.PreserveTypes = append(cur.PreserveTypes, strings.TrimSpace(t))
					}
					break
				}
				for _, e := range splitTop(rest, ',') {
					cur.Preserves = append(cur.Preserves, &Clause{Text: strings.TrimSpace(e), Line: ln})
				}
			case "alloc":
				r := strings.TrimSpace(strings.TrimPrefix(strings.TrimSpace(rest), "<="))
				n, err := strconv.Atoi(r)
				if err != nil {
					// an int expression over the parameters, evaluated on entry
					cur.AllocExpr = &Clause{Text: r, Line: ln}
				} else {
					cur.AllocBound = n
				}
			case "trusted":
				cur.Trusted = true
				if rest != "" {
					cur.Notes = append(cur.Notes, rest)
				}
			case "nilrecv":
				cur.NilRecv = true
			case "call":
				// call <callee name> args <a T, b U> requires <expr>
				name, r2 := splitWord(rest)
				w2, r3 := splitWord(r2)
				cs := &CallSpec{Name: name}
				if w2 == "args" {
					i := strings.Index(r3, " requires ")
					if i < 0 {
						return nil, fmt.Errorf("line %d: call <name> args <decls> requires <expr>", ln)
					}
					decl := r3[:i]
					// optional: ... vars <local T, ...> (locals of the function, read at the call site)
					if j := strings.Index(decl, " vars "); j >= 0 {
						for _, d := range splitTop(decl[j+len(" vars "):], ',') {
							n, t := splitWord(strings.TrimSpace(d))
							cs.Vars = append(cs.Vars, [2]string{n, t})
						}
						decl = decl[:j]
					}
					for _, d := range splitTop(decl, ',') {
						n, t := splitWord(strings.TrimSpace(d))
						cs.Args = append(cs.Args, [2]string{n, t})
					}
					cs.Clause = &Clause{Text: strings.TrimSpace(r3[i+len(" requires "):]), Line: ln, Props: clauseProps}
				} else if w2 == "vars" {
					// call <callee name> vars <local T, ...> requires <expr> (a callee without arguments)
					i := strings.Index(r3, " requires ")
					if i < 0 {
						return nil, fmt.Errorf("line %d: call <name> vars <decls> requires <expr>", ln)
					}
					for _, d := range splitTop(r3[:i], ',') {
						n, t := splitWord(strings.TrimSpace(d))
						cs.Vars = append(cs.Vars, [2]string{n, t})
					}
					cs.Clause = &Clause{Text: strings.TrimSpace(r3[i+len(" requires "):]), Line: ln, Props: clauseProps}
				} else if w2 == "requires" {
					cs.Clause = &Clause{Text: r3, Line: ln, Props: clauseProps}
				} else {
					return nil, fmt.Errorf("line %d: call <name> [args <decls>] requires <expr>", ln)
				}
				cur.Calls = append(cur.Calls, cs)
			case "noconn":
				// assumed: the function does not write to or close any connection
				cur.NoConn = true
				if rest != "" {
					cur.Notes = append(cur.Notes, rest)
				}
			case "nosafety":
				// nosafety [except kind ...]: e.g. `nosafety except close`
				cur.NoSafety = true
				if w, r := splitWord(rest); w == "except" {
					cur.SafetyOnly = append(cur.SafetyOnly, strings.Fields(r)...)
				}
			case "locks":
				// lock obligations (relock, unlock, balance, guarded fields): see locks.go
				cur.Locks = true
				cur.LockProps = append(cur.LockProps, strings.Fields(rest)...)
			case "acquires":
				// acquires N: called with no lock of level >= N held; takes only locks of level >= N
				cur.Locks = true
				n, err := strconv.Atoi(strings.TrimSpace(rest))
				if err != nil {
					return nil, fmt.Errorf("%s:%d: acquires <level>", rel, ln)
				}
				cur.Acquires, cur.HasAcquires = n, true
			case "counts":
				for _, n := range strings.FieldsFunc(rest, func(r rune) bool { return r == ',' || r == ' ' }) {
					cur.Counts = append(cur.Counts, n)
				}
			case "noblock":
				// channel operations that may block are made with no levelled lock held (locks.go)
				cur.Locks = true
				cur.NoBlock = true
			case "guards":
				// guarded-field obligations, generated in the runs of the listed properties
				cur.Locks = true
				cur.GuardProps = append(cur.GuardProps, strings.Fields(rest)...)
			case "split":
				// postconditions are proved once per edge into a returning block (a
				// case split along the last branching, e.g. the arms of a switch)
				cur.Split = true
			case "nonnil":
				cur.NonNil = true
			case "exhaustive":
				cur.Exhaustive = true
			case "inline":
				cur.LemmaMode = "inline"
			case "note":
				cur.Notes = append(cur.Notes, rest)
			case "loop":
				ord, r2 := splitWord(rest)
				k, err := strconv.Atoi(ord)
				if err != nil {
					return nil, fmt.Errorf("line %d: loop ordinal", ln)
				}
				ls := cur.Loops[k]
				if ls == nil {
					ls = &LoopSpec{}
					cur.Loops[k] = ls
				}
				w2, r3 := splitWord(r2)
				switch w2 {
				case "vars":
					// name type | name=local type: the clause's name for a local variable
					// (needed when the local is a parameter that the loop reassigns)
					for _, d := range splitTop(r3, ',') {
						n, t := splitWord(strings.TrimSpace(d))
						ls.Vars = append(ls.Vars, [2]string{n, t})
					}
				case "invariant":
					ls.Invariants = append(ls.Invariants, &Clause{Text: r3, Line: ln})
				case "decreases":
					ls.Decreases = &Clause{Text: r3, Line: ln}
				default:
					return nil, fmt.Errorf("line %d: unknown loop clause %q", ln, w2)
				}
			default:
				return nil, fmt.Errorf("line %d: unknown clause %q", ln, word)
			}
		}
	}
	return ps, nil
}

func splitWord(s string) (string, string) {
	s = strings.TrimSpace(s)
	i := strings.IndexAny(s, " \t")
	if i < 0 {
		return s, ""
	}
	return s[:i], strings.TrimSpace(s[i+1:])
}

// splitTop splits s at top-level occurrences of sep (outside brackets/strings).
func splitTop(s string, sep byte) []string {
	var parts []string
	depth := 0
	start := 0
	inStr := byte(0)
	for i := 0; i < len(s); i++ {
		c := s[i]
		if inStr != 0 {
			if c == '\\' {
				i++
			} else if c == inStr {
				inStr = 0
			}
			continue
		}
		switch c {
		case '"', '\'', '`':
			inStr = c
		case '(', '[', '{':
			depth++
		case ')', ']', '}':
			depth--
		default:
			if c == sep && depth == 0 {
				parts = append(parts, s[start:i])
				start = i + 1
			}
		}
	}
	parts = append(parts, s[start:])
	return parts
}

// desugar rewrites `a ==> b`, forall(i, lo, hi, body), exists(i, lo, hi, body)
// into plain Go.
func desugar(s string) string {
	s = strings.TrimSpace(s)
	// top-level implication (right associative, lowest precedence)
	depth := 0
	inStr := byte(0)
	for i := 0; i+2 < len(s); i++ {
		c := s[i]
		if inStr != 0 {
			if c == '\\' {
				i++
			} else if c == inStr {
				inStr = 0
			}
			continue
		}
		switch c {
		case '"', '\'', '`':
			inStr = c
		case '(', '[', '{':
			depth++
		case ')', ']', '}':
			depth--
		case '=':
			if depth == 0 && s[i:i+3] == "==>" {
				return "(!(" + desugar(s[:i]) + ") || (" + desugar(s[i+3:]) + "))"
			}
		}
	}
	// no top-level implication: descend into bracket groups
	var out strings.Builder
	for i := 0; i < len(s); i++ {
		c := s[i]
		if c == '"' || c == '\'' || c == '`' {
			j := i + 1
			for j < len(s) && s[j] != c {
				if s[j] == '\\' {
					j++
				}
				j++
			}
			out.WriteString(s[i:min(j+1, len(s))])
			i = j
			continue
		}
		if c == '(' || c == '[' || c == '{' {
			j := matchClose(s, i)
			if j < 0 {
				out.WriteString(s[i:])
				break
			}
			inner := s[i+1 : j]
			// quantifier macro?
			pre := strings.TrimRight(out.String(), " ")
			handled := false
			for _, q := range []string{"forall", "exists"} {
				if c == '(' && strings.HasSuffix(pre, q) && (len(pre) == len(q) || !isIdentChar(pre[len(pre)-len(q)-1])) {
					args := splitTop(inner, ',')
					if len(args) >= 4 {
						body := strings.Join(args[3:], ",")
						newPre := pre[:len(pre)-len(q)]
						out.Reset()
						out.WriteString(newPre)
						out.WriteString(fmt.Sprintf("verif_%s(int(%s), int(%s), func(%s int) bool { return %s })", q, desugar(args[1]), desugar(args[2]), strings.TrimSpace(args[0]), desugar(body)))
						handled = true
					}
				}
			}
			// all(x T, body): body holds of every value x of the basic type T
			if q := "all"; !handled && c == '(' && strings.HasSuffix(pre, q) && (len(pre) == len(q) || !isIdentChar(pre[len(pre)-len(q)-1])) {
				args := splitTop(inner, ',')
				if len(args) >= 2 && len(strings.Fields(args[0])) == 2 {
					body := strings.Join(args[1:], ",")
					newPre := pre[:len(pre)-len(q)]
					out.Reset()
					out.WriteString(newPre)
					out.WriteString(fmt.Sprintf("verif_all(func(%s) bool { return %s })", strings.TrimSpace(args[0]), desugar(body)))
					handled = true
				}
			}
			if !handled {
				parts := splitTop(inner, ',')
				for k := range parts {
					parts[k] = desugar(parts[k])
				}
				out.WriteByte(c)
				out.WriteString(strings.Join(parts, ", "))
				out.WriteByte(s[j])
			}
			i = j
			continue
		}
		out.WriteByte(c)
	}
	return out.String()
}

func isIdentChar(c byte) bool {
	return c == '_' || c >= 'a' && c <= 'z' || c >= 'A' && c <= 'Z' || c >= '0' && c <= '9'
}

func matchClose(s string, i int) int {
	depth := 0
	inStr := byte(0)
	for j := i; j < len(s); j++ {
		c := s[j]
		if inStr != 0 {
			if c == '\\' {
				j++
			} else if c == inStr {
				inStr = 0
			}
			continue
		}
		switch c {
		case '"', '\'', '`':
			inStr = c
		case '(', '[', '{':
			depth++
		case ')', ']', '}':
			depth--
			if depth == 0 {
				return j
			}
		}
	}
	return -1
}

// ---------------------------------------------------------------------------
// Elaboration
// ---------------------------------------------------------------------------

type funcSig struct {
	recv    string // "pfx *Prefix" or ""
	params  []string
	pnames  []string
	results []string // types
	rnames  []string
	imports map[string]string // local name -> path, of the declaring file
}

// findSigs parses the package directory and returns signatures by contract key.
func findSigs(dir string) (map[string]*funcSig, string, error) {
	fset := token.NewFileSet()
	ctx := build.Default
	ctx.BuildTags = []string{"verif"}
	ents, err := os.ReadDir(dir)
	if err != nil {
		return nil, "", err
	}
	sigs := map[string]*funcSig{}
	pkgName := ""
	for _, e := range ents {
		n := e.Name()
		if e.IsDir() || !strings.HasSuffix(n, ".go") || strings.HasSuffix(n, "_test.go") || n == elabFile {
			continue
		}
		if ok, _ := ctx.MatchFile(dir, n); !ok {
			continue
		}
		f, err := parser.ParseFile(fset, filepath.Join(dir, n), nil, parser.SkipObjectResolution)
		if err != nil {
			return nil, "", err
		}
		pkgName = f.Name.Name
		imps := map[string]string{}
		for _, im := range f.Imports {
			p, _ := strconv.Unquote(im.Path.Value)
			name := ""
			if im.Name != nil {
				name = im.Name.Name
			}
			imps[p] = name
		}
		for _, d := range f.Decls {
			if gd, ok := d.(*ast.GenDecl); ok && gd.Tok == token.TYPE {
				// methods of interface types: contract key "<Interface>.<Method>"
				for _, s := range gd.Specs {
					ts, ok := s.(*ast.TypeSpec)
					if !ok {
						continue
					}
					it, ok := ts.Type.(*ast.InterfaceType)
					if !ok || it.Methods == nil {
						continue
					}
					for _, m := range it.Methods.List {
						ft, ok := m.Type.(*ast.FuncType)
						if !ok || len(m.Names) != 1 {
							continue
						}
						sig := &funcSig{imports: map[string]string{}}
						for p, n := range imps {
							sig.imports[p] = n
						}
						sig.recv = "recv " + ts.Name.Name
						sig.pnames = append(sig.pnames, "recv")
						sigParamsResults(fset, sig, ft)
						sigs[ts.Name.Name+"."+m.Names[0].Name] = sig
					}
				}
				continue
			}
			fd, ok := d.(*ast.FuncDecl)
			if !ok {
				continue
			}
			key := fd.Name.Name
			sig := &funcSig{imports: map[string]string{}}
			for p, n := range imps {
				sig.imports[p] = n
			}
			if fd.Recv != nil && len(fd.Recv.List) == 1 {
				r := fd.Recv.List[0]
				ts := nodeStr(fset, r.Type)
				base := strings.TrimPrefix(ts, "*")
				if i := strings.Index(base, "["); i >= 0 {
					base = base[:i]
				}
				if strings.HasPrefix(ts, "*") {
					key = "(*" + base + ")." + key
				} else {
					key = base + "." + key
				}
				rn := "recv"
				if len(r.Names) == 1 && r.Names[0].Name != "_" {
					rn = r.Names[0].Name
				}
				sig.recv = rn + " " + ts
				sig.pnames = append(sig.pnames, rn)
			}
			sigParamsResults(fset, sig, fd.Type)
			sigs[key] = sig
		}
	}
	return sigs, pkgName, nil
}

// sigParamsResults fills in parameter and result names and types.
func sigParamsResults(fset *token.FileSet, sig *funcSig, ft *ast.FuncType) {
	pi := 0
	for _, p := range ft.Params.List {
		ts := nodeStr(fset, p.Type)
		if strings.HasPrefix(ts, "...") {
			ts = "[]" + ts[3:]
		}
		names := p.Names
		if len(names) == 0 {
			names = []*ast.Ident{{Name: "_"}}
		}
		for _, n := range names {
			nm := n.Name
			if nm == "_" {
				nm = fmt.Sprintf("p%d", pi)
			}
			pi++
			sig.params = append(sig.params, nm+" "+ts)
			sig.pnames = append(sig.pnames, nm)
		}
	}
	if ft.Results != nil {
		ri := 0
		total := 0
		for _, r := range ft.Results.List {
			if len(r.Names) == 0 {
				total++
			} else {
				total += len(r.Names)
			}
		}
		for _, r := range ft.Results.List {
			ts := nodeStr(fset, r.Type)
			names := r.Names
			if len(names) == 0 {
				names = []*ast.Ident{{Name: "_"}}
			}
			for _, n := range names {
				nm := n.Name
				if nm == "_" || nm == "" {
					if total == 1 {
						nm = "result"
					} else {
						nm = fmt.Sprintf("result%d", ri)
					}
				}
				ri++
				sig.results = append(sig.results, ts)
				sig.rnames = append(sig.rnames, nm)
			}
		}
	}
}

func nodeStr(fset *token.FileSet, n ast.Node) string {
	var b bytes.Buffer
	printer.Fprint(&b, fset, n)
	return b.String()
}

// elaborate produces the synthetic Go file for one package.
func elaborate(repo string, ps *pkgSpec) (string, error) {
	dir := filepath.Join(repo, ps.dir)
	sigs, pkgName, err := findSigs(dir)
	if err != nil {
		return "", err
	}
	if ps.name == "" {
		ps.name = pkgName
	}
	var body strings.Builder
	imports := map[string]string{"reflect\x00": ""}
	for _, im := range ps.imports {
		im = strings.TrimSpace(im)
		name := ""
		if i := strings.Index(im, " "); i >= 0 {
			name, im = im[:i], strings.TrimSpace(im[i+1:])
		}
		p, _ := strconv.Unquote(im)
		imports[p+"\x00"+name] = name
	}
	body.WriteString(`
func verif_forall(lo, hi int, f func(int) bool) bool {
	for i := lo; i < hi; i++ {
		if !f(i) {
			return false
		}
	}
	return true
}

func verif_exists(lo, hi int, f func(int) bool) bool {
	for i := lo; i < hi; i++ {
		if f(i) {
			return true
		}
	}
	return false
}

func ite[T any](c bool, a, b T) T {
	if c {
		return a
	}
	return b
}

// verif_fresh(p): p was allocated during the current execution of the function
// under contract (a ghost predicate; it has no run-time observer).
func verif_fresh(p any) bool { return true }

// verif_freshslice(s): the backing array of s was allocated during the current
// execution of the function under contract (ghost; no run-time observer).
func verif_freshslice[T any](s []T) bool { return true }

// verif_arrayof(s): the backing array of s, as an object that a modifies clause can list.
func verif_arrayof[T any](s []T) any { return nil }

// verif_mapid(m): the identity of map m (two map values are the same map iff their ids are equal).
func verif_mapid[K comparable, V any](m map[K]V) uintptr { return reflect.ValueOf(m).Pointer() }

// verif_sameelems(a, b): a and b have the same length and the same elements in
// the same order.
func verif_sameelems[T any](a, b []T) bool {
	if len(a) != len(b) {
		return false
	}
	for i := range a {
		if !reflect.DeepEqual(a[i], b[i]) {
			return false
		}
	}
	return true
}

// verif_all(f): f holds of every value of its parameter type (a specification-only
// quantifier; it has no run-time observer).
func verif_all[T any](f func(T) bool) bool { verif_ghostUsed = true; return true }

// verif_ghostUsed: set when a clause evaluated at run time (counterexample replay)
// relied on a construct without run-time observer.
var verif_ghostUsed bool

var _ = verif_forall
var _ = verif_exists
var _ = verif_fresh
`)
	body.WriteString(ghostPrelude)
	for _, l := range ps.specCode {
		body.WriteString(l)
		body.WriteString("\n")
	}
	for _, c := range ps.contracts {
		c.Def = nil
		c.ParamNames, c.ResNames = nil, nil
		var plist string
		var rlist string
		if c.IsLemma {
			sig := strings.TrimSpace(c.LemmaSig)
			sig = strings.TrimSuffix(strings.TrimPrefix(sig, "("), ")")
			plist = sig
			// parameter names
			for _, p := range splitTop(sig, ',') {
				n, _ := splitWord(strings.TrimSpace(p))
				if n != "" {
					c.ParamNames = append(c.ParamNames, n)
				}
			}
		} else {
			sig, ok := sigs[c.Key]
			if !ok {
				return "", fmt.Errorf("%s/%s line %d: function %s not found in package", ps.dir, contractFile, c.Line, c.Key)
			}
			for p, n := range sig.imports {
				if _, ok := imports[p+"\x00"+n]; !ok {
					imports[p+"\x00"+n] = n
				}
			}
			var ps2 []string
			if sig.recv != "" {
				ps2 = append(ps2, sig.recv)
			}
			ps2 = append(ps2, sig.params...)
			plist = strings.Join(ps2, ", ")
			var rs []string
			for i := range sig.results {
				rs = append(rs, sig.rnames[i]+" "+sig.results[i])
			}
			rlist = strings.Join(rs, ", ")
			c.ParamNames = sig.pnames
			c.ResNames = sig.rnames
		}
		join := func(parts ...string) string {
			var xs []string
			for _, p := range parts {
				if strings.TrimSpace(p) != "" {
					xs = append(xs, p)
				}
			}
			return strings.Join(xs, ", ")
		}
		emit := func(cl *Clause, name, params, ret string) {
			cl.FnName = name
			fmt.Fprintf(&body, "\n// %s %s line %d\nfunc %s(%s) %s {\n\treturn %s\n}\n", c.Key, "clause", cl.Line, name, params, ret, desugar(cl.Text))
		}
		var oldParams []string
		plistP := plist // parameters only (preconditions, frames)
		for _, lg := range c.Logicals {
			plist = join(plist, lg[0]+" "+lg[1])
		}
		for j, o := range c.Olds {
			emit(o.Clause, fmt.Sprintf("verif_%s_old%d", c.ID, j), plist, o.Type)
			oldParams = append(oldParams, o.Name+" "+o.Type)
		}
		for k, cl := range c.Requires {
			emit(cl, fmt.Sprintf("verif_%s_pre%d", c.ID, k), plistP, "bool")
		}
		for k, cl := range c.Ensures {
			emit(cl, fmt.Sprintf("verif_%s_post%d", c.ID, k), join(plist, rlist, strings.Join(oldParams, ", ")), "bool")
			// a clause `result == E` over the parameters alone defines the result: a
			// call of the function inside a specification can be replaced by E
			if c.Def == nil && !c.IsLemma && len(c.Logicals) == 0 && len(c.Olds) == 0 {
				if sig, ok := sigs[c.Key]; ok && len(sig.results) == 1 && sig.rnames[0] == "result" {
					if ex, err := parser.ParseExpr(desugar(cl.Text)); err == nil {
						if be, ok := ex.(*ast.BinaryExpr); ok && be.Op == token.EQL {
							if id, ok := be.X.(*ast.Ident); ok && id.Name == "result" && !mentionsIdent(be.Y, "result") {
								d := &Clause{Text: nodeStr(token.NewFileSet(), be.Y), Line: cl.Line}
								d.FnName = fmt.Sprintf("verif_%s_def", c.ID)
								fmt.Fprintf(&body, "\n// %s definition line %d\nfunc %s(%s) %s {\n\treturn %s\n}\n", c.Key, cl.Line, d.FnName, plistP, sig.results[0], d.Text)
								c.Def = d
							}
						}
					}
				}
			}
		}
		if c.AllocExpr != nil {
			emit(c.AllocExpr, fmt.Sprintf("verif_%s_alloc", c.ID), plistP, "int")
		}
		for k, cs := range c.Calls {
			var as []string
			for _, a := range cs.Args {
				as = append(as, a[0]+" "+a[1])
			}
			for _, a := range cs.Vars {
				as = append(as, a[0]+" "+a[1])
			}
			emit(cs.Clause, fmt.Sprintf("verif_%s_call%d", c.ID, k), join(plist, strings.Join(oldParams, ", "), strings.Join(as, ", ")), "bool")
		}
		for k, cl := range c.Preserves {
			cl.FnName = fmt.Sprintf("verif_%s_keep%d", c.ID, k)
			fmt.Fprintf(&body, "\nfunc %s(%s) any {\n\treturn %s\n}\n", cl.FnName, plistP, desugar(cl.Text))
		}
		for k, cl := range c.Modifies {
			// a modifies expression denotes an object (pointer); typed as any via a generic wrapper
			cl.FnName = fmt.Sprintf("verif_%s_mod%d", c.ID, k)
			fmt.Fprintf(&body, "\nfunc %s(%s) any {\n\treturn %s\n}\n", cl.FnName, plistP, desugar(cl.Text))
		}
		var ords []int
		for k := range c.Loops {
			ords = append(ords, k)
		}
		sort.Ints(ords)
		for _, li := range ords {
			ls := c.Loops[li]
			var vs []string
			var names []string
			for _, v := range ls.Vars {
				nm, local := v[0], v[0]
				if i := strings.Index(nm, "="); i > 0 {
					nm, local = v[0][:i], v[0][i+1:]
				}
				vs = append(vs, nm+" "+v[1])
				names = append(names, local)
			}
			params := join(plist, strings.Join(oldParams, ", "), strings.Join(vs, ", "))
			for k, cl := range ls.Invariants {
				cl.Locals = names
				emit(cl, fmt.Sprintf("verif_%s_L%dinv%d", c.ID, li, k), params, "bool")
			}
			if ls.Decreases != nil {
				ls.Decreases.Locals = names
				emit(ls.Decreases, fmt.Sprintf("verif_%s_L%ddec", c.ID, li), params, "int")
			}
		}
	}
	// assemble, pruning unused imports
	code := body.String()
	var hdr strings.Builder
	hdr.WriteString("//go:build verif\n\n// Code generated by govc from " + contractFile + " (overlay only; never written to the repository). DO NOT EDIT.\n\npackage " + ps.name + "\n\nimport (\n")
	var paths []string
	for p := range imports {
		paths = append(paths, p)
	}
	sort.Strings(paths)
	// identifiers the generated code leaves unresolved are package names
	unresolved := map[string]bool{}
	if pf, err := parser.ParseFile(token.NewFileSet(), "elab.go", "package "+ps.name+"\n"+code, 0); err == nil {
		for _, id := range pf.Unresolved {
			unresolved[id.Name] = true
		}
	} else {
		return "", fmt.Errorf("%s/%s: elaborated code does not parse: %v", ps.dir, contractFile, err)
	}
	emitted := map[string]bool{}
	for _, pk := range paths {
		name := imports[pk]
		p := pk
		if i := strings.IndexByte(pk, 0); i >= 0 {
			p = pk[:i]
		}
		local := name
		if local == "" {
			local = filepath.Base(p)
			// packages whose name differs from the last path element need an explicit name in the contract file
			if len(local) >= 2 && len(local) <= 3 && local[0] == 'v' && strings.Trim(local[1:], "0123456789") == "" {
				local = filepath.Base(filepath.Dir(p))
			}
		}
		if local == "_" || local == "." {
			continue
		}
		if !unresolved[local] || emitted[local] {
			continue
		}
		emitted[local] = true
		if name != "" {
			fmt.Fprintf(&hdr, "\t%s %q\n", name, p)
		} else {
			fmt.Fprintf(&hdr, "\t%q\n", p)
		}
	}
	hdr.WriteString(")\n")
	return hdr.String() + code, nil
}

func usesIdent(code, name string) bool {
	idx := 0
	for {
		i := strings.Index(code[idx:], name+".")
		if i < 0 {
			return false
		}
		j := idx + i
		if j == 0 || !isIdentChar(code[j-1]) && code[j-1] != '.' {
			return true
		}
		idx = j + 1
	}
}

func mentionsIdent(e ast.Expr, name string) bool {
	found := false
	ast.Inspect(e, func(n ast.Node) bool {
		if id, ok := n.(*ast.Ident); ok && id.Name == name {
			found = true
		}
		return true
	})
	return found
}
