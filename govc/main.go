package main

import (
	"context"
	"encoding/json"
	"flag"
	"os/exec"
	"fmt"
	"os"
	"path/filepath"
	"sort"
	"strings"
	"time"
)

func main() {
	if len(os.Args) < 2 {
		fmt.Fprintln(os.Stderr, "usage: govc run|elab|dump ...")
		os.Exit(2)
	}
	switch os.Args[1] {
	case "run":
		os.Exit(cmdRun(os.Args[2:]))
	case "elab":
		os.Exit(cmdElab(os.Args[2:]))
	default:
		fmt.Fprintln(os.Stderr, "unknown command")
		os.Exit(2)
	}
}

func cmdElab(args []string) int {
	fs := flag.NewFlagSet("elab", flag.ExitOnError)
	repo := fs.String("repo", "/repo", "repository root")
	mirror := fs.String("mirror", "/verif/contracts_mirror", "contract mirror")
	dir := fs.String("dir", "", "package dir (relative)")
	fs.Parse(args)
	specs, err := readContracts(*repo, *mirror)
	if err != nil {
		fmt.Fprintln(os.Stderr, err)
		return 2
	}
	for d, ps := range specs {
		if *dir != "" && d != *dir {
			continue
		}
		src, err := elaborate(*repo, ps)
		if err != nil {
			fmt.Fprintln(os.Stderr, err)
			return 2
		}
		fmt.Printf("// ===== %s/%s =====\n%s\n", d, elabFile, src)
	}
	return 0
}

type runOpts struct {
	repo, verif, prop, tier, only string
	seed                          int
	keep                          bool
	verbose                       bool
	jobs                          int
	noReplay                      bool
	overlay                       string
}

func cmdRun(args []string) int {
	fs := flag.NewFlagSet("run", flag.ExitOnError)
	var o runOpts
	fs.StringVar(&o.repo, "repo", "/repo", "repository root")
	fs.StringVar(&o.verif, "verif", "/verif", "verification root")
	fs.StringVar(&o.prop, "prop", "", "property id")
	fs.StringVar(&o.tier, "tier", "quick", "quick|thorough")
	fs.StringVar(&o.only, "only", "", "only contracts whose key contains this")
	fs.IntVar(&o.seed, "seed", 0, "seed")
	fs.BoolVar(&o.keep, "keep", false, "keep work dir")
	fs.BoolVar(&o.verbose, "v", false, "verbose")
	fs.BoolVar(&o.noReplay, "noreplay", false, "skip replay")
	fs.IntVar(&o.jobs, "jobs", 12, "parallel solver jobs")
	fs.StringVar(&o.overlay, "overlay", "", "extra build overlay (JSON, go build format): used by the self-test to mutate sources in memory")
	fs.Parse(args)
	t0 := time.Now()
	eng := newEngine(o.repo)
	eng.curProp = o.prop
	if o.overlay != "" {
		if err := eng.readExtraOverlay(o.overlay); err != nil {
			fmt.Fprintln(os.Stderr, "overlay:", err)
			return 2
		}
	}
	mirror := filepath.Join(o.verif, "contracts_mirror")
	specs, err := readContracts(o.repo, mirror)
	if err != nil {
		fmt.Fprintln(os.Stderr, "contracts:", err)
		return 2
	}
	// select contracts
	var dirs []string
	for d, ps := range specs {
		found := false
		for _, c := range ps.contracts {
			if hasProp(c, o.prop) {
				found = true
			}
		}
		for _, sw := range ps.sweeps {
			for _, p := range sw.Props {
				if p == o.prop {
					found = true
				}
			}
		}
		if found {
			dirs = append(dirs, d)
		}
	}
	sort.Strings(dirs)
	if len(dirs) == 0 {
		fmt.Fprintf(os.Stderr, "no contracts carry property %s\n", o.prop)
		return 2
	}
	var pats []string
	for _, d := range dirs {
		pats = append(pats, "./"+d)
	}
	if err := eng.load(mirror, pats); err != nil {
		fmt.Fprintln(os.Stderr, "load:", err)
		return reportBroken(o, "load failed: "+err.Error(), t0)
	}
	tLoad := time.Since(t0)
	var results []*FuncResult
	var all []*Obligation
	var cts []*Contract
	var allDirs []string
	for d := range eng.specs {
		allDirs = append(allDirs, d)
	}
	sort.Strings(allDirs)
	for _, d := range allDirs {
		for _, c := range eng.specs[d].contracts {
			if !hasProp(c, o.prop) {
				continue
			}
			if c.Fn == nil && !c.IsLemma {
				continue // package not loaded in this run
			}
			if c.IsLemma && (len(c.Ensures) == 0 || c.Ensures[0].Fn == nil) {
				continue
			}
			if o.only != "" && !strings.Contains(c.Key, o.only) {
				continue
			}
			cts = append(cts, c)
		}
	}
	work := filepath.Join(o.verif, ".work", fmt.Sprintf("%s-%d", o.prop, os.Getpid()))
	os.MkdirAll(work, 0o755)
	var enumObls []*Obligation
	for _, c := range cts {
		if c.Exhaustive {
			ob := eng.verifyExhaustive(c, o, work)
			enumObls = append(enumObls, ob)
			results = append(results, &FuncResult{Contract: c, VC: ob.vc, Obls: []*Obligation{ob}})
			continue
		}
		r := eng.verifyContract(c)
		results = append(results, r)
		all = append(all, r.Obls...)
	}
	// contracts that no longer fit the code: what they promised cannot be established
	for _, c := range eng.misfits {
		if !hasProp(c, o.prop) {
			continue
		}
		results = append(results, &FuncResult{Contract: c, VC: eng.newVC(nil, c.FullKey()), Err: "the contract no longer type-checks against the code (signature or names changed): its obligations cannot be established"})
	}
	tGen := time.Since(t0) - tLoad
	cfg := solveCfg{tier: o.tier, workdir: work, quickT: 4, fullT: 60, jobs: o.jobs}
	if o.tier == "thorough" {
		cfg.fullT = 180
		cfg.quickT = 10
	}
	solveObligations(all, cfg)
	all = append(all, enumObls...)
	bounded := runBounded(eng, o, work)
	tSolve := time.Since(t0) - tLoad - tGen
	eng.boundedResults = bounded
	code := report(eng, o, results, all, tLoad, tGen, tSolve, t0, work)
	if !o.keep {
		os.RemoveAll(work)
	}
	return code
}

func hasProp(c *Contract, p string) bool {
	if p == "" || p == "all" {
		return true
	}
	for _, q := range c.Props {
		if q == p {
			return true
		}
	}
	return false
}

// ---------------------------------------------------------------------------
// Bounded stand-ins: parts of a property that no contract within reach decides
// are checked by running the real code over a stated, bounded input space (a Go
// test kept under /verif/bounded/<property>/, injected by overlay). They are
// labelled bounded and never counted as discharged obligations.
// ---------------------------------------------------------------------------

type boundedResult struct {
	Name   string
	Bound  string
	Status string // held | violated | error
	Output string
	Secs   float64
	Cases  string
}

func runBounded(eng *Engine, o runOpts, work string) []boundedResult {
	dir := filepath.Join(o.verif, "bounded", o.prop)
	data, err := os.ReadFile(filepath.Join(dir, "meta.json"))
	if err != nil {
		return nil
	}
	var meta struct{ Pkg, Run, Name, Bound string }
	if json.Unmarshal(data, &meta) != nil {
		return []boundedResult{{Name: "bounded:" + o.prop, Status: "error", Output: "meta.json unreadable"}}
	}
	ov := map[string]map[string]string{"Replace": {}}
	ents, _ := os.ReadDir(dir)
	for _, e := range ents {
		if strings.HasSuffix(e.Name(), "_test.go") {
			ov["Replace"][filepath.Join(o.repo, meta.Pkg, "zz_verif_"+e.Name())] = filepath.Join(dir, e.Name())
		}
	}
	for p, alt := range eng.extraOverlay {
		ov["Replace"][p] = alt
	}
	ovFile := filepath.Join(work, "bounded_overlay.json")
	od, _ := json.Marshal(ov)
	os.WriteFile(ovFile, od, 0o644)
	t0 := time.Now()
	ctx, cancel := context.WithTimeout(context.Background(), 300*time.Second)
	defer cancel()
	cmd := exec.CommandContext(ctx, "go", "test", "-overlay", ovFile, "-vet=off", "-timeout", "240s", "-count=1", "-run", "^"+meta.Run+"$", "-v", "./"+meta.Pkg)
	cmd.Dir = o.repo
	cmd.Env = append(os.Environ(), "GOFLAGS=-mod=mod", "GOPROXY=off", "GOSUMDB=off", "GOTOOLCHAIN=local", fmt.Sprintf("VERIF_SEED=%d", o.seed), "VERIF_TIER="+o.tier)
	outB, _ := cmd.CombinedOutput()
	out := string(outB)
	r := boundedResult{Name: meta.Name, Bound: meta.Bound, Secs: time.Since(t0).Seconds()}
	switch {
	case strings.Contains(out, "VERIF-BOUNDED-FAIL"):
		r.Status = "violated"
		for _, l := range strings.Split(out, "\n") {
			if strings.Contains(l, "VERIF-BOUNDED-FAIL") {
				r.Output = strings.TrimSpace(l)
			}
		}
	case strings.Contains(out, "VERIF-BOUNDED-OK"):
		r.Status = "held"
		for _, l := range strings.Split(out, "\n") {
			if strings.Contains(l, "VERIF-BOUNDED-OK") {
				r.Cases = strings.TrimSpace(strings.TrimPrefix(strings.TrimSpace(l), "VERIF-BOUNDED-OK"))
			}
		}
	default:
		r.Status = "error"
		r.Output = truncate(out, 1500)
	}
	return []boundedResult{r}
}
