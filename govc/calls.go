package main

import (
	"fmt"
	"os"
	"sort"
	"go/constant"
	"go/token"
	"go/types"
	"strings"

	"golang.org/x/tools/go/ssa"
)

type closureInfo struct {
	fn       *ssa.Function
	bindings []ssa.Value
	fr       *Frame
}

func (fr *Frame) call(b *ssa.BasicBlock, x *ssa.Call, c *ssa.CallCommon, st *State, reach string) *Val {
	return fr.callCommon(b, x, c, st, reach, x.Pos())
}

func resultType(c *ssa.CallCommon) types.Type {
	sig := c.Signature()
	switch sig.Results().Len() {
	case 0:
		return nil
	case 1:
		return sig.Results().At(0).Type()
	}
	return sig.Results()
}

func (fr *Frame) onStack(f *ssa.Function) bool {
	for r := fr; r != nil; r = r.parent {
		if r.fn == f {
			return true
		}
	}
	return false
}

func (fr *Frame) rootFrame() *Frame {
	r := fr
	for r.parent != nil {
		r = r.parent
	}
	return r
}

// packResults turns a result list into the value of the call instruction.
func packResults(c *ssa.CallCommon, res []Val) *Val {
	sig := c.Signature()
	switch sig.Results().Len() {
	case 0:
		return nil
	case 1:
		v := res[0]
		v.T = sig.Results().At(0).Type()
		return &v
	}
	for i := range res {
		res[i].T = sig.Results().At(i).Type()
	}
	return &Val{T: sig.Results(), Tup: res}
}

func (fr *Frame) freshResults(c *ssa.CallCommon, st *State, hint string) []Val {
	vc := fr.vc
	sig := c.Signature()
	res := make([]Val, sig.Results().Len())
	for i := range res {
		t := sig.Results().At(i).Type()
		res[i] = Val{T: t, S: vc.fresh(vc.sorts().sortOf(t), hint)}
		vc.typingFacts(st, t, res[i].S)
	}
	return res
}

// callSiteObligations: `call <name> requires ...` clauses of the function under
// contract are checked at each of its own call sites of that name.
func (fr *Frame) callSiteObligations(b *ssa.BasicBlock, c *ssa.CallCommon, st *State, reach string, pos token.Pos) {
	if fr.parent != nil || fr.pure || fr.contract == nil || len(fr.contract.Calls) == 0 {
		return
	}
	name, recvT := "", ""
	callArgs := c.Args
	if c.IsInvoke() {
		name = c.Method.Name()
		if n, ok := c.Value.Type().(*types.Named); ok {
			recvT = n.Obj().Name()
		}
	} else if f, ok := c.Value.(*ssa.Function); ok {
		name = f.Name()
		if f.Signature.Recv() != nil && len(callArgs) > 0 {
			if n, ok := derefNamed(f.Signature.Recv().Type()); ok {
				recvT = n.Obj().Name()
			}
			callArgs = callArgs[1:] // the clause speaks about the arguments, not the receiver
		}
	}
	if name == "" {
		return
	}
	vc := fr.vc
	for k, cs := range fr.contract.Calls {
		want := cs.Name
		if i := strings.Index(want, "."); i >= 0 {
			if want[:i] != recvT {
				continue
			}
			want = want[i+1:]
		}
		if want != name {
			continue
		}
		if len(cs.Clause.Props) > 0 && vc.eng.curProp != "" && vc.eng.curProp != "all" {
			found := false
			for _, p := range cs.Clause.Props {
				if p == vc.eng.curProp {
					found = true
				}
			}
			if !found {
				continue
			}
		}
		var args []Val
		for _, p := range fr.fn.Params {
			args = append(args, fr.get(p))
		}
		args = append(args, vc.rootLogicals...)
		args = append(args, vc.rootOlds...)
		declared := cs.Args
		if len(declared) > 0 && declared[0][0] == "recv" {
			// the first declared argument named recv denotes the receiver
			if c.IsInvoke() {
				args = append(args, fr.get(c.Value))
			} else if len(c.Args) > len(callArgs) {
				args = append(args, fr.get(c.Args[0]))
			} else {
				panic(unsupported("call clause with recv on a function without receiver: " + name))
			}
			declared = declared[1:]
		}
		if len(declared) > len(callArgs) {
			panic(unsupported("call clause with more arguments than the call has: " + name))
		}
		for i := range declared {
			args = append(args, fr.get(callArgs[i]))
		}
		for _, lv := range cs.Vars {
			limit := len(b.Instrs)
			for i, ins := range b.Instrs {
				if ci, isCall := ins.(ssa.CallInstruction); isCall && ci.Common() == c {
					limit = i
					break
				}
			}
			v, ok := fr.localBefore(b, limit, lv[0])
			if !ok {
				panic(unsupported(fmt.Sprintf("call clause of %s: cannot resolve local %q", fr.fn.Name(), lv[0])))
			}
			if a, isAlloc := v.(*ssa.Alloc); isAlloc && a.Comment == lv[0] {
				pv := fr.get(a)
				args = append(args, Val{T: ptrElem(a.Type()), S: vc.load(st, vc.locOf(pv))})
				continue
			}
			args = append(args, fr.get(v))
		}
		g := vc.evalClause(cs.Clause, args, st, fr)
		root := fr.oblFn()
		ord := vc.callOrd["callreq:"+name]
		vc.callOrd["callreq:"+name]++
		o := vc.addObl("call-req", root, fmt.Sprintf("call-req:%s:%s#%d:%d", root, name, ord, k), reach, g, pos)
		o.Clause = cs.Clause.Text
		// vacuity guard: the call site itself is reachable under everything assumed so
		// far (an obligation at a call the model cannot reach would hold of anything)
		gk := fmt.Sprintf("cover:%s:call:%s#%d", root, name, ord)
		if !vc.callCovers[gk] {
			if vc.callCovers == nil {
				vc.callCovers = map[string]bool{}
			}
			vc.callCovers[gk] = true
			c := vc.addObl("cover", root, gk, "true", reach, pos)
			c.ExpectSat = true
			c.Clause = "the call site is reachable"
		}
	}
}

func (fr *Frame) callCommon(b *ssa.BasicBlock, v ssa.Value, c *ssa.CallCommon, st *State, reach string, pos token.Pos) *Val {
	vc := fr.vc
	fr.callSiteObligations(b, c, st, reach, pos)
	if vc.locksOn && !fr.pure {
		var cc *Contract
		if c.IsInvoke() {
			cc = vc.eng.ifaceContracts[c.Method]
		} else if f, ok := c.Value.(*ssa.Function); ok {
			cc = vc.eng.contracts[f]
		}
		if cc != nil && cc.HasAcquires {
			vc.orderObl(fr, st, cc.Acquires, "call of "+cc.Key, reach, pos)
		} else if c.IsInvoke() && vc.lockObls {
			vc.trust("lock order across calls of interface methods without an `acquires` contract (table clients) is not checked: it rests on the registration discipline that a table's clients take only locks above the table's own")
		}
	}
	if c.IsInvoke() {
		return fr.invoke(b, c, st, reach, pos)
	}
	switch f := c.Value.(type) {
	case *ssa.Builtin:
		var rt types.Type
		if v != nil {
			rt = v.Type()
		}
		return fr.builtin(b, f.Name(), c, st, reach, pos, rt)
	case *ssa.Function:
		args := make([]Val, len(c.Args))
		for i, a := range c.Args {
			args[i] = fr.get(a)
		}
		return fr.callFunc(b, f, c, args, st, reach, pos)
	case *ssa.MakeClosure:
		fn := f.Fn.(*ssa.Function)
		args := make([]Val, len(c.Args))
		for i, a := range c.Args {
			args[i] = fr.get(a)
		}
		return fr.callClosure(b, &closureInfo{fn: fn, bindings: f.Bindings, fr: fr}, c, args, st, reach, pos)
	default:
		fv := fr.get(c.Value)
		if ci, ok := vc.eng.closures[fv.S]; ok {
			args := make([]Val, len(c.Args))
			for i, a := range c.Args {
				args[i] = fr.get(a)
			}
			return fr.callClosure(b, ci, c, args, st, reach, pos)
		}
		if fr.pure {
			panic(unsupported("call through function value in specification"))
		}
		// unknown target: everything may change
		vc.havocAll(st)
		vc.note("call through a function value in " + fr.fn.String() + ": heap forgotten")
		return packResults(c, fr.freshResults(c, st, "fvres"))
	}
}

func (fr *Frame) callClosure(b *ssa.BasicBlock, ci *closureInfo, c *ssa.CallCommon, args []Val, st *State, reach string, pos token.Pos) *Val {
	vc := fr.vc
	if fr.onStack(ci.fn) {
		panic(unsupported("recursive closure"))
	}
	vc.nframes++
	res, out, rr := vc.execClosure(ci, args, st, reach, fr)
	*st = *out
	_ = rr
	return packResults(c, res)
}

func (vc *VC) execClosure(ci *closureInfo, args []Val, st *State, reach string, parent *Frame) ([]Val, *State, string) {
	// bind free variables through a wrapper frame trick: execFunc reads fr.vals for FreeVars
	vc.pendingFree = map[ssa.Value]Val{}
	for i, fv := range ci.fn.FreeVars {
		vc.pendingFree[fv] = ci.fr.get(ci.bindings[i])
	}
	return vc.execFunc(ci.fn, args, st, reach, parent, false, nil)
}

func (fr *Frame) callFunc(b *ssa.BasicBlock, f *ssa.Function, c *ssa.CallCommon, args []Val, st *State, reach string, pos token.Pos) *Val {
	vc := fr.vc
	eng := vc.eng
	name := f.Name()
	if f.Pkg != nil && (name == "verif_forall" || name == "verif_exists") {
		return fr.quantifier(name == "verif_forall", c, args, st, reach)
	}
	if strings.HasPrefix(name, "verif_all[") {
		return fr.quantifierAll(c, args, st, reach)
	}
	if strings.HasPrefix(name, "verif_wheld[") || strings.HasPrefix(name, "verif_rheld[") || strings.HasPrefix(name, "verif_held[") {
		return fr.heldPredicate(name, args, st)
	}
	if strings.HasPrefix(name, "verif_calls[") {
		return fr.callsPredicate(args, st)
	}
	fr.countCall(f, args, st)
	if strings.HasPrefix(name, "verif_chclosed[") {
		if v, ok := fr.ghostPredicate("verif_chclosed", args, st); ok {
			return v
		}
	}
	if f.Pkg != nil && strings.HasPrefix(name, "verif_") {
		if v, ok := fr.ghostPredicate(name, args, st); ok {
			return v
		}
	}
	if strings.HasPrefix(name, "verif_uf_val[") {
		// an uninterpreted function of an object reference with values of type T
		k, ok := c.Args[0].(*ssa.Const)
		if !ok || k.Value == nil {
			panic(unsupported(name + ": the name must be a string constant"))
		}
		rt := f.Signature.Results().At(0).Type()
		srt := vc.sorts().sortOf(rt)
		fn := "g_uf_" + vc.sorts().shortName(constant.StringVal(k.Value)) + "_" + vc.sorts().shortName("ufsort:"+srt)
		eng.needDecl(fmt.Sprintf("(declare-fun %s ((_ BitVec 64)) %s)", fn, srt))
		return &Val{T: rt, S: app(fn, app("g_iref", args[1].S))}
	}
	if f.Pkg != nil && (name == "verif_uf_str" || name == "verif_uf_u64") {
		// an uninterpreted function of an object reference, named by a constant
		k, ok := c.Args[0].(*ssa.Const)
		if !ok || k.Value == nil {
			panic(unsupported(name + ": the name must be a string constant"))
		}
		res, rt := "g_Str", types.Type(types.Typ[types.String])
		if name == "verif_uf_u64" {
			res, rt = bvSort(64), types.Typ[types.Uint64]
		}
		fn := "g_uf_" + vc.sorts().shortName(constant.StringVal(k.Value)) + "_" + name[9:]
		eng.needDecl(fmt.Sprintf("(declare-fun %s ((_ BitVec 64)) %s)", fn, res))
		return &Val{T: rt, S: app(fn, app("g_iref", args[1].S))}
	}
	if strings.HasPrefix(name, "verif_arrayof[") {
		// the backing array of a slice as an object (for modifies clauses)
		// (a slice without capacity has no cells: no object)
		sl := args[0].S
		tag := bvConst(1, 32)
		if st, ok := args[0].T.Underlying().(*types.Slice); ok {
			tag = bvConst(uint64(eng.pseudoTag("array:"+typeKey(st.Elem()))), 32)
		}
		return &Val{T: f.Signature.Results().At(0).Type(), S: vc.def("g_Iface", "arrayof", fmt.Sprintf("(ite (= (g_scap %s) (_ bv0 64)) g_niliface (g_mkiface %s (g_sarr %s)))", sl, tag, sl))}
	}
	if strings.HasPrefix(name, "verif_mapid[") {
		// the identity of a map (maps are references; Go can compare them to nil only)
		return &Val{T: f.Signature.Results().At(0).Type(), S: args[0].S}
	}
	if strings.HasPrefix(name, "verif_sameelems[") {
		// the two slices hold the same sequence of elements
		sl, ok := args[0].T.Underlying().(*types.Slice)
		if !ok {
			panic(unsupported("verif_sameelems: not a slice"))
		}
		x, y := args[0].S, args[1].S
		key := vc.elemKey(sl.Elem())
		ax := vc.readCell(st, key, app("g_sarr", x))
		ay := vc.readCell(st, key, app("g_sarr", y))
		p := vc.sameSeqPred(sl.Elem())
		t := sAnd(sEq(app("g_slen", x), app("g_slen", y)), app(p, ax, app("g_soff", x), ay, app("g_soff", y), app("g_slen", x)))
		return &Val{T: types.Typ[types.Bool], S: vc.def("Bool", "sameelems", t)}
	}
	if strings.HasPrefix(name, "verif_freshslice[") || name == "verif_fresh" {
		for _, t := range vc.specTrack {
			t.usesNow = true
		}
	}
	if strings.HasPrefix(name, "verif_freshslice[") {
		// the slice's backing array was allocated during this execution of the
		// function under contract (or the slice has no capacity at all)
		n0 := vc.frame.next0
		if n0 == "" {
			n0 = "g_next0"
		}
		if vc.freshBase != "" {
			n0 = vc.freshBase
		}
		sl := args[0].S
		now := st.next
		if vc.clauseNext != "" {
			now = vc.clauseNext
		}
		return &Val{T: types.Typ[types.Bool], S: vc.def("Bool", "freshsl", sOr(sEq(app("g_scap", sl), bvConst(0, 64)), sAnd(app("bvuge", app("g_sarr", sl), n0), app("bvult", app("g_sarr", sl), now))))}
	}
	if f.Pkg != nil && name == "verif_fresh" {
		// the object was allocated during this execution of the function under contract
		n0 := vc.frame.next0
		if n0 == "" {
			n0 = "g_next0"
		}
		if vc.freshBase != "" {
			n0 = vc.freshBase
		}
		ref := app("g_iref", args[0].S)
		// allocated after entry and before now
		now := st.next
		if vc.clauseNext != "" {
			now = vc.clauseNext
		}
		return &Val{T: types.Typ[types.Bool], S: vc.def("Bool", "fresh", sAnd(sNot(sEq(ref, bvConst(0, 64))), app("bvuge", ref, n0), app("bvult", ref, now)))}
	}
	if m := eng.modelFor(f); m != nil {
		return m.apply(fr, b, f, c, args, st, reach, pos)
	}
	inline := func() *Val {
		res, out, rr := vc.execFunc(f, args, st, reach, fr, false, nil)
		*st = *out
		if rr == "false" {
			// callee never returns normally on this path
			res = fr.freshResults(c, st, "noret")
		}
		if !fr.pure && rr != "false" && rr != reach {
			// paths on which the callee panicked were reported as obligations (and assumed away)
		}
		return packResults(c, res)
	}
	ct := eng.contractOf(f)
	hasBody := len(f.Blocks) > 0 && eng.loopInfo(f).rpo != nil
	if fr.pure && hasBody && (strings.HasPrefix(name, "spec_") || strings.HasPrefix(name, "Spec_")) && inModule(f) && !fr.onStack(f) && !noSpecDefs &&
		(vc.quant > 0 || eng.specUsesQuant(f, 0)) {
		// (a quantifier-free specification function called outside a quantifier is
		// expanded in place: its reads then get the per-read typing facts)
		if v := fr.specDefCall(f, c, args, st); v != nil {
			return v
		}
	}
	if fr.pure && ct != nil && ct.Def != nil && ct.Def.Fn != nil && hasBody && len(eng.loopInfo(f).list) > 0 {
		// a function with loops called inside a specification: its contract
		// defines the result (the contract is verified against the body separately)
		vc.usedContracts[ct.FullKey()] = true
		// as a shared definition where quantifiers are involved (equal calls then
		// are equal terms), otherwise expanded in place
		if !noSpecDefs && (vc.quant > 0 || eng.specUsesQuant(ct.Def.Fn, 0)) {
			if v := fr.specDefCall(ct.Def.Fn, c, args, st); v != nil {
				return v
			}
		}
		v := vc.evalClauseVal(ct.Def, args, st, fr)
		return &v
	}
	if fr.pure || vc.inlineAll {
		if hasBody && !fr.onStack(f) && (inModule(f) || eng.inlineExternal(f)) {
			return inline()
		}
		if ct != nil && !fr.pure {
			return fr.applyContract(b, ct, c, args, st, reach, pos)
		}
		if fr.onStack(f) {
			panic(unsupported("recursion in specification/lemma: " + f.String()))
		}
		// external function in a specification: uninterpreted result
		return packResults(c, fr.freshResults(c, st, "ext_"+name))
	}
	if ct != nil && f != vc.root || ct != nil && fr.parent != nil || ct != nil && fr.onStack(f) {
		return fr.applyContract(b, ct, c, args, st, reach, pos)
	}
	if ct != nil {
		return fr.applyContract(b, ct, c, args, st, reach, pos)
	}
	if hasBody && inModule(f) && !fr.onStack(f) && fr.depth < eng.maxInline && len(eng.loopInfo(f).list) == 0 && countInstrs(f) <= eng.maxInlineInstrs {
		return inline()
	}
	if hasBody && eng.inlineExternal(f) && !fr.onStack(f) && fr.depth < eng.maxInline {
		return inline()
	}
	return fr.havocCall(b, f, c, args, st, reach, pos)
}

func countInstrs(f *ssa.Function) int {
	n := 0
	for _, b := range f.Blocks {
		for _, i := range b.Instrs {
			if _, ok := i.(*ssa.DebugRef); !ok {
				n++
			}
		}
	}
	return n
}

// havocCall: the callee is not inlined and has no contract.
func (fr *Frame) havocCall(b *ssa.BasicBlock, f *ssa.Function, c *ssa.CallCommon, args []Val, st *State, reach string, pos token.Pos) *Val {
	vc := fr.vc
	var m *ModSet
	if inModule(f) && len(f.Blocks) > 0 {
		m = vc.eng.funcMods(f)
	} else {
		m = newModSet()
		vc.eng.externalEffects(m, c)
		if len(f.Blocks) == 0 || !inModule(f) {
			vc.trust("external function " + f.String() + ": result unconstrained; may write only objects passed to it directly")
		}
	}
	fr.frameCall(b, m, nil, st, reach, pos, f.String())
	if m.all {
		vc.note("callee with unbounded effects: " + f.String())
	}
	if vc.locksOn && vc.lockObls && inModule(f) && vc.eng.takesLocks(f, 0, map[*ssa.Function]bool{}) {
		vc.note("callee " + f.String() + " takes locks but is neither inlined nor under a lock contract: assumed to leave them as found, its place in the lock order is not checked")
	}
	vc.havocMods(st, m)
	return packResults(c, fr.freshResults(c, st, "res_"+f.Name()))
}

// ---------------------------------------------------------------------------
// Contracts at call sites
// ---------------------------------------------------------------------------

func (vc *VC) evalClause(cl *Clause, args []Val, st *State, parent *Frame) string {
	return vc.evalClauseVal(cl, args, st, parent).S
}

func (vc *VC) evalClauseVal(cl *Clause, args []Val, st *State, parent *Frame) Val {
	if cl.Fn == nil {
		panic(unsupported("clause function missing: " + cl.FnName))
	}
	// "now" for the freshness predicates is the state the clause is evaluated in,
	// not the clause function's own scratch allocations
	savedNext := vc.clauseNext
	if vc.clauseNext == "" {
		vc.clauseNext = st.next
	}
	res, _, _ := vc.execFunc(cl.Fn, args, st.clone(), "true", parent, true, nil)
	vc.clauseNext = savedNext
	if len(res) != 1 {
		panic(unsupported("clause returned no value: " + cl.FnName))
	}
	return res[0]
}

func (fr *Frame) applyContract(b *ssa.BasicBlock, ct *Contract, c *ssa.CallCommon, args []Val, st *State, reach string, pos token.Pos) *Val {
	vc := fr.vc
	root := fr.oblFn()
	vc.usedContracts[ct.FullKey()] = true
	if ct.Trusted {
		vc.trust("trusted contract (body not verified): " + ct.FullKey())
	}
	if vc.locksOn && vc.lockObls && !ct.Locks && ct.Fn != nil && inModule(ct.Fn) && vc.eng.takesLocks(ct.Fn, 0, map[*ssa.Function]bool{}) {
		vc.note("callee " + ct.FullKey() + " takes locks and is under a contract without `locks`: assumed to leave them as found, its place in the lock order is not checked")
	}
	ord := vc.callOrd[ct.Key]
	vc.callOrd[ct.Key]++
	base := fmt.Sprintf("call-pre:%s:%s#%d", root, ct.Key, ord)
	f := ct.Fn
	fname := ""
	if f != nil {
		fname = f.Name()
	} else {
		fname = ct.IfaceMethod.Name()
		vc.trust("contract of an interface method, assumed of every implementation: " + ct.FullKey())
	}
	if f != nil && f.Signature.Recv() != nil && !ct.NilRecv && !fr.pure {
		if _, isPtr := f.Signature.Recv().Type().Underlying().(*types.Pointer); isPtr && !(args[0].Loc != nil && len(args[0].Loc.Path) > 0) && !(args[0].Loc != nil && args[0].Loc.Kind != locStruct && args[0].Loc.Kind != locBox) {
			o := vc.addObl("call-pre", root, base+":recv", reach, sNot(sEq(vc.valTerm(args[0]), bvConst(0, 64))), pos)
			o.Clause = "receiver != nil"
			vc.assume(o.Goal)
		}
	}
	// interior pointers: pass a temporary copy of the pointee and copy it back
	// after the call (sound when the callee does not retain the pointer)
	type copyBack struct {
		loc *Loc
		tmp Val
	}
	var backs []copyBack
	for i := range args {
		if args[i].Loc != nil {
			l := args[i].Loc
			if (l.Kind == locStruct || l.Kind == locBox) && len(l.Path) == 0 {
				args[i] = Val{T: args[i].T, S: l.Ref}
				continue
			}
			et := ptrElem(args[i].T)
			tmp := Val{T: args[i].T, S: vc.alloc(st)}
			vc.store(st, vc.locOf(tmp), vc.load(st, l))
			args[i] = tmp
			backs = append(backs, copyBack{loc: l, tmp: tmp})
			vc.trust("interior pointer passed to a contracted callee by copy-in/copy-out (callee assumed not to retain it): " + et.String())
		}
	}
	defer func() {
		if ct.ModNothing {
			return
		}
		for _, cb := range backs {
			vc.store(st, cb.loc, vc.load(st, vc.locOf(cb.tmp)))
		}
	}()
	if !fr.pure {
		for _, i := range ct.nonNilParams() {
			o := vc.addObl("call-pre", root, fmt.Sprintf("%s:nonnil%d", base, i), reach, sNot(sEq(vc.valTerm(args[i]), bvConst(0, 64))), pos)
			o.Clause = "pointer parameter " + ct.Fn.Params[i].Name() + " != nil"
			vc.assume(o.Goal)
		}
		for k, cl := range ct.Requires {
			g := vc.evalClause(cl, args, st, fr)
			kind, nm := "call-pre", fmt.Sprintf("%s:%d", base, k)
			if vc.locksOn && (vc.lockObls || vc.guardObls) && strings.Contains(cl.Text, "held(") && vc.inDispatch == 0 {
				// what the callee needs held is an obligation of the lock discipline
				// (kept under nosafety, unlike the other preconditions)
				kind, nm = "lock", fmt.Sprintf("lock:%s:call-held:%s#%d:%d", root, ct.Key, ord, k)
			}
			if vc.locksOn && (vc.lockObls || vc.guardObls) && strings.Contains(cl.Text, "held(") && vc.inDispatch > 0 {
				vc.trust("called through an interface: that " + ct.FullKey() + " is entered with the locks its contract requires held is not checked at the interface call (the caller up the stack holds them)")
			}
			o := vc.addObl(kind, root, nm, reach, g, pos)
			o.Clause = cl.Text
			vc.assume(o.Goal)
		}
	}
	callNext := st.next
	// logical variables of the callee's contract: its postconditions are assumed
	// for all their values (bound variables of one quantifier around each clause)
	var lgVals []Val
	var lgBind []string
	if len(ct.Logicals) > 0 {
		for _, lg := range ct.Logicals {
			t := vc.eng.logicalType(ct, lg)
			vc.qn++
			n := fmt.Sprintf("g_lg%d", vc.qn)
			lgVals = append(lgVals, Val{T: t, S: n})
			lgBind = append(lgBind, "("+n+" "+vc.sorts().sortOf(t)+")")
		}
	}
	underLogicals := func(f func()) {
		if len(lgVals) == 0 {
			f()
			return
		}
		saved := vc.qvars
		for _, v := range lgVals {
			vc.qvars = append(vc.qvars, [2]string{v.S, vc.sorts().sortOf(v.T)})
		}
		savedCur := vc.qcur
		vc.qcur = ""
		vc.quant++
		f()
		vc.quant--
		vc.qcur = savedCur
		vc.qvars = saved
	}
	argsL := append(append([]Val{}, args...), lgVals...)
	var olds []Val
	underLogicals(func() {
		for _, o := range ct.Olds {
			olds = append(olds, vc.evalClauseVal(o.Clause, argsL, st, fr))
		}
	})
	// frame
	if len(ct.Preserves) > 0 || len(ct.PreserveTypes) > 0 {
		var protect []string
		for _, cl := range ct.Preserves {
			v := vc.evalClauseVal(cl, args, st, fr)
			protect = append(protect, vc.def(refSort, "keep", app("g_iref", v.S)))
		}
		keepPrefixes := ct.keepPrefixes()
		fr.frameCall(b, &ModSet{all: true, set: map[string]keyInfo{}}, nil, st, reach, pos, ct.Key)
		vc.havocProtect(st, protect, keepPrefixes)
		vc.trust("assumed (preserves): " + ct.FullKey() + " leaves the listed objects unchanged")
	} else if !ct.ModNothing {
		var m *ModSet
		if f != nil {
			m = vc.eng.funcMods(f)
		} else {
			m = &ModSet{all: true, set: map[string]keyInfo{}}
		}
		var exempt []string
		framed := len(ct.Modifies) > 0
		for _, cl := range ct.Modifies {
			v := vc.evalClauseVal(cl, args, st, fr)
			// (reference, type tags): the entry exempts objects of its own type only
			exempt = append(exempt, app("g_iref", v.S)+"\x01"+vc.eng.clauseTags(cl, app("g_itag", v.S)))
		}
		if ct.autoFrame() {
			// default frame of sweep contracts: the objects passed by pointer (and fresh ones)
			framed = true
			exempt = []string{}
			for i, p := range f.Params {
				if _, ok := p.Type().Underlying().(*types.Pointer); ok {
					exempt = append(exempt, vc.valTerm(args[i]))
				}
			}
		}
		if ct.NoConn {
			m2 := newModSet()
			m2.all = m.all
			for k, v := range m.set {
				if !strings.HasPrefix(k, "Gh|") {
					m2.set[k] = v
				}
			}
			m = m2
			vc.trust("assumed (noconn): " + ct.FullKey() + " does not write to or close a connection")
		}
		fr.frameCall(b, m, exempt, st, reach, pos, ct.Key)
		limit := st.next
		if m.all && len(m.keep) > 0 {
			vc.havocMods(st, m)
		} else if m.all && framed {
			// unbounded static effects, but a declared frame: every heap array known so
			// far may have changed, except at pre-existing objects outside the frame
			vc.bumpNext(st)
			for _, k := range sortedKeys(vc.heapSort) {
				if strings.HasPrefix(k, "Gl|") {
					continue // lock state: calls are lock-neutral (locks.go)
				}
				if strings.HasPrefix(k, "G|") || strings.HasPrefix(k, "Gh|") {
					if !(ct.NoConn && strings.HasPrefix(k, "Gh|")) {
						vc.havocHeap(st, k, "", nil)
					}
					continue
				}
				vc.havocHeap(st, k, limit, exempt)
			}
		} else if m.all {
			saved := map[string]string{}
			if ct.NoConn {
				for _, g := range ghostConnKeys {
					saved[g.key] = vc.heapVer(st, vc.ghostKey(g.key))
				}
			}
			vc.havocAll(st)
			for k, v := range saved {
				st.heap[k] = v
			}
			vc.note("contracted callee with unbounded static effects: " + ct.FullKey())
		} else {
			vc.bumpNext(st)
			for _, k := range m.keys() {
				vc.registerKey(k)
				if framed {
					vc.havocHeap(st, k, limit, exempt)
				} else {
					vc.havocHeap(st, k, "", nil)
				}
			}
		}
	} else {
		vc.bumpNext(st) // may allocate
	}
	res := fr.freshResults(c, st, "res_"+fname)
	post := append(append(append([]Val{}, argsL...), res...), olds...)
	// "fresh" in the callee's postconditions: allocated during this call
	savedBase := vc.freshBase
	vc.freshBase = callNext
	defer func() { vc.freshBase = savedBase }()
	for _, cl := range ct.Ensures {
		var g string
		underLogicals(func() { g = vc.evalClause(cl, post, st, fr) })
		if len(lgVals) > 0 && usesAny(g, lgVals) {
			g = fmt.Sprintf("(forall (%s) %s)", strings.Join(lgBind, " "), g)
		}
		vc.assume(sImp(reach, g))
	}
	if ct.Def != nil && ct.Def.Fn != nil && len(res) == 1 && !noSpecDefs && !fr.pure && vc.eng.specUsesQuant(ct.Def.Fn, 0) {
		// the same definition that stands for a call of this function inside a
		// specification: the result of the real call is that term
		pf := &Frame{vc: vc, fn: fr.fn, pure: true, parent: fr, vals: map[ssa.Value]Val{}}
		if v := pf.specDefCall(ct.Def.Fn, c, args, st); v != nil {
			vc.assume(sImp(reach, sEq(res[0].S, v.S)))
		}
	}
	return packResults(c, res)
}

// frameCall: the root function has a declared frame; a call that may write
// pre-existing objects must stay inside it.
func (fr *Frame) frameCall(b *ssa.BasicBlock, m *ModSet, exempt []string, st *State, reach string, pos token.Pos, callee string) {
	if fr.pure {
		return
	}
	r := fr.rootFrame()
	if !fr.vc.frame.active {
		return
	}
	if !m.all && len(m.set) == 0 {
		return
	}
	vc := fr.vc
	root := fr.oblFn()
	ord := vc.callOrd["frame:"+callee]
	vc.callOrd["frame:"+callee]++
	if exempt == nil {
		o := vc.addObl("frame", root, fmt.Sprintf("frame:%s:call:%s#%d", root, callee, ord), reach, "false", pos)
		o.Detail = "callee without a declared frame may write pre-existing objects: " + strings.Join(m.keys(), ",")
		return
	}
	for i, e := range exempt {
		g := vc.frameAllowed(r, exemptRef(e))
		vc.addObl("frame", root, fmt.Sprintf("frame:%s:call:%s#%d:%d", root, callee, ord, i), reach, g, pos)
	}
}

// frameAllowed: ref is fresh (allocated during this execution of the root) or
// one of the objects listed in the root's modifies clause.
func (vc *VC) frameAllowed(r *Frame, ref string) string {
	if vc.freshRefs[ref] {
		return "true"
	}
	// nil is no object: a callee that lists a nil pointer in its frame writes nothing through it
	alts := []string{app("bvuge", ref, vc.frame.next0), sEq(ref, bvConst(0, 64))}
	for _, e := range vc.frame.refs {
		alts = append(alts, sEq(ref, exemptRef(e)))
	}
	return sOr(alts...)
}

func (fr *Frame) frameCheck(b *ssa.BasicBlock, l *Loc, st *State, reach string, pos token.Pos) {
	if fr.pure {
		return
	}
	r := fr.rootFrame()
	if !fr.vc.frame.active {
		return
	}
	vc := fr.vc
	root := fr.oblFn()
	if strings.HasPrefix(l.Key, "G|") {
		vc.addObl("frame", root, fmt.Sprintf("frame:%s:store-global", root), reach, "false", pos)
		return
	}
	g := vc.frameAllowed(r, l.Ref)
	if g == "true" {
		return
	}
	ord := vc.callOrd["framestore"]
	vc.callOrd["framestore"]++
	vc.addObl("frame", root, fmt.Sprintf("frame:%s:store#%d", root, ord), reach, g, pos)
}

// frameCheckRef: a write to the object ref (through copy, an in-place append or
// a map operation) under condition cond must stay inside the declared frame.
func (fr *Frame) frameCheckRef(b *ssa.BasicBlock, ref, cond string, st *State, reach string, pos token.Pos, what string) {
	if fr.pure || !fr.vc.frame.active || !fr.vc.frame.strict {
		return
	}
	vc := fr.vc
	g := vc.frameAllowed(fr.rootFrame(), ref)
	if g == "true" {
		return
	}
	root := fr.oblFn()
	ord := vc.callOrd["frame"+what]
	vc.callOrd["frame"+what]++
	vc.addObl("frame", root, fmt.Sprintf("frame:%s:%s#%d", root, what, ord), reach, sImp(cond, g), pos)
}

// ---------------------------------------------------------------------------
// dynamic dispatch
// ---------------------------------------------------------------------------

func (fr *Frame) invoke(b *ssa.BasicBlock, c *ssa.CallCommon, st *State, reach string, pos token.Pos) *Val {
	vc := fr.vc
	if m, ok := isConnMethod(c); ok && !fr.pure {
		return fr.connCall(b, m, c, st, reach, pos)
	}
	recv := fr.get(c.Value)
	tag := app("g_itag", recv.S)
	fr.safe("nil", reach, sNot(sEq(tag, bvConst(0, 32))), pos)
	if ct := vc.eng.ifaceContracts[c.Method]; ct != nil {
		// the interface method has a contract of its own: the call is checked
		// against it, whatever implementations happen to be loaded
		cargs := []Val{recv}
		for _, a := range c.Args {
			cargs = append(cargs, fr.get(a))
		}
		return fr.applyContract(b, ct, c, cargs, st, reach, pos)
	}
	impls := vc.eng.implementations(c.Value.Type(), c.Method)
	args := make([]Val, len(c.Args))
	for i, a := range c.Args {
		args[i] = fr.get(a)
	}
	ifaceInModule := false
	if n, ok := c.Value.Type().(*types.Named); ok && n.Obj().Pkg() != nil && strings.HasPrefix(n.Obj().Pkg().Path(), modulePath) {
		ifaceInModule = true
	}
	if !ifaceInModule || len(impls) == 0 || len(impls) > vc.eng.maxDispatch {
		// open world or too wide: havoc according to the union of effects
		m := newModSet()
		for _, f := range impls {
			m.union(vc.eng.funcMods(f))
		}
		if len(impls) == 0 || !ifaceInModule {
			vc.eng.externalEffects(m, c)
			if c.Method.Name() != "Error" && c.Method.Name() != "String" {
				vc.trust("interface call " + c.Value.Type().String() + "." + c.Method.Name() + ": external implementations assumed to write only objects passed directly")
			}
		}
		if fr.pure {
			return packResults(c, fr.freshResults(c, st, "dyn_"+c.Method.Name()))
		}
		if mn := c.Method.Name(); (mn == "Error" || mn == "String") && len(c.Args) == 0 {
			// Error() and String() are treated as observers
			vc.trust("Error()/String() methods called through an interface are assumed to have no side effects")
			return packResults(c, fr.freshResults(c, st, "dyn_"+mn))
		}
		fr.frameCall(b, m, nil, st, reach, pos, c.Method.Name())
		vc.havocMods(st, m)
		return packResults(c, fr.freshResults(c, st, "dyn_"+c.Method.Name()))
	}
	// closed world: case split on the dynamic type
	var conds []string
	var sts []*State
	var results [][]Val
	for _, f := range impls {
		rt := f.Signature.Recv().Type()
		cond := sEq(tag, bvConst(uint64(vc.eng.typeTag(rt)), 32))
		var rv Val
		if isPointerish(rt) {
			rv = Val{T: rt, S: app("g_iref", recv.S)}
		} else {
			rv = Val{T: rt, S: vc.readCell(st, vc.boxKey(rt), app("g_iref", recv.S))}
		}
		alt := st.clone()
		r2 := vc.def("Bool", "dispatch", sAnd(reach, cond))
		// build a synthetic CallCommon-like invocation
		cc := &ssa.CallCommon{Value: f, Args: nil}
		_ = cc
		vc.inDispatch++
		res := fr.callFuncSig(b, f, c, append([]Val{rv}, args...), alt, r2, pos)
		vc.inDispatch--
		conds = append(conds, cond)
		sts = append(sts, alt)
		results = append(results, res)
	}
	vc.assume(sImp(reach, sOr(conds...))) // closed world
	mg := vc.mergeStates(conds, sts)
	*st = *mg
	n := c.Signature().Results().Len()
	res := make([]Val, n)
	for i := 0; i < n; i++ {
		res[i] = results[len(results)-1][i]
		for j := len(results) - 2; j >= 0; j-- {
			res[i] = vc.iteVal(conds[j], results[j][i], res[i])
		}
	}
	return packResults(c, res)
}

// callFuncSig calls f with explicit args and returns the result list.
func (fr *Frame) callFuncSig(b *ssa.BasicBlock, f *ssa.Function, c *ssa.CallCommon, args []Val, st *State, reach string, pos token.Pos) []Val {
	// reuse callFunc with a CallCommon whose signature is f's
	cc := &ssa.CallCommon{Value: f}
	v := fr.callFunc(b, f, cc, args, st, reach, pos)
	n := f.Signature.Results().Len()
	switch n {
	case 0:
		return nil
	case 1:
		return []Val{*v}
	}
	return v.Tup
}

// ---------------------------------------------------------------------------
// quantifiers in specifications
// ---------------------------------------------------------------------------

// quantifierAll: verif_all(func(x T) bool { ... }) holds when the body holds of
// every value of type T (basic types only).
func (fr *Frame) quantifierAll(c *ssa.CallCommon, args []Val, st *State, reach string) *Val {
	vc := fr.vc
	ci, ok := vc.eng.closures[args[0].S]
	if !ok {
		panic(unsupported("quantifier body is not a function literal"))
	}
	pt := ci.fn.Signature.Params().At(0).Type()
	switch pt.Underlying().(type) {
	case *types.Basic, *types.Interface, *types.Pointer, *types.Array:
	default:
		panic(unsupported("verif_all over type " + pt.String()))
	}
	vc.qn++
	q := fmt.Sprintf("g_q%d", vc.qn)
	vc.quant++
	vc.qvars = append(vc.qvars, [2]string{q, vc.sorts().sortOf(pt)})
	savedCur := vc.qcur
	vc.qcur = ""
	res, _, _ := vc.execClosure(ci, []Val{{T: pt, S: q}}, st.clone(), "true", fr)
	vc.qcur = savedCur
	vc.qvars = vc.qvars[:len(vc.qvars)-1]
	vc.quant--
	t := fmt.Sprintf("(forall ((%s %s)) %s)", q, vc.sorts().sortOf(pt), res[0].S)
	return &Val{T: types.Typ[types.Bool], S: vc.def("Bool", "quant", t)}
}

func (fr *Frame) quantifier(forall bool, c *ssa.CallCommon, args []Val, st *State, reach string) *Val {
	vc := fr.vc
	ci, ok := vc.eng.closures[args[2].S]
	if !ok {
		panic(unsupported("quantifier body is not a function literal"))
	}
	vc.qn++
	q := fmt.Sprintf("g_q%d", vc.qn)
	bv64 := "(_ BitVec 64)"
	savedCur, savedRepl := vc.qcur, vc.qrepl
	vc.quant++
	vc.qvars = append(vc.qvars, [2]string{q, bv64})
	if vc.qoffs == nil {
		vc.qoffs = map[string]string{}
	}
	vc.qcands = append(vc.qcands, q)
	res, _, _ := vc.execClosure(ci, []Val{{T: types.Typ[types.Int], S: q}}, st.clone(), "true", fr)
	off := vc.qoffs[q]
	vc.qcands = vc.qcands[:len(vc.qcands)-1]
	vc.qvars = vc.qvars[:len(vc.qvars)-1]
	vc.quant--
	body := res[0].S
	idx := q // the term the range speaks about
	// Re-base the bound variable on the absolute position in the first slice the
	// body indexes with it: elements are then read as (select arr J), the shape the
	// facts about copy/append are stated in, so that instantiation by matching
	// works across shifted copies.
	if off != "" {
		j := q + "a"
		rel := fmt.Sprintf("(bvsub %s %s)", j, off)
		vc.quant++
		vc.qvars = append(vc.qvars, [2]string{j, bv64})
		vc.qcur = ""
		vc.qrepl = append(append([][2]string{}, savedRepl...), [2]string{fmt.Sprintf("(bvadd %s %s)", off, rel), j})
		res2, _, _ := vc.execClosure(ci, []Val{{T: types.Typ[types.Int], S: rel}}, st.clone(), "true", fr)
		body = res2[0].S
		for _, r := range vc.qrepl {
			body = strings.ReplaceAll(body, r[0], r[1])
		}
		vc.qvars = vc.qvars[:len(vc.qvars)-1]
		vc.quant--
		vc.qcur, vc.qrepl = savedCur, savedRepl
		idx = rel
		q = j
	}
	rng := fmt.Sprintf("(and (bvsle %s %s) (bvslt %s %s))", args[0].S, idx, idx, args[1].S)
	var t string
	// trigger: the element read at the bound position, when the body has one
	pat := ""
	if !noPatterns {
		if p := vc.selectPattern(body, q); p != "" {
			pat = " :pattern (" + p + ")"
		}
	}
	if forall {
		if pat != "" {
			t = fmt.Sprintf("(forall ((%s (_ BitVec 64))) (! (=> %s %s)%s))", q, rng, body, pat)
		} else {
			t = fmt.Sprintf("(forall ((%s (_ BitVec 64))) (=> %s %s))", q, rng, body)
		}
	} else {
		if pat != "" {
			t = fmt.Sprintf("(exists ((%s (_ BitVec 64))) (! (and %s %s)%s))", q, rng, body, pat)
		} else {
			t = fmt.Sprintf("(exists ((%s (_ BitVec 64))) (and %s %s))", q, rng, body)
		}
	}
	return &Val{T: types.Typ[types.Bool], S: vc.def("Bool", "quant", t)}
}

var noPatterns = os.Getenv("GOVC_NOPATTERNS") != ""

// selectPattern looks, in body with the definitions it uses expanded, for a term
// (select A q) whose index is exactly the bound variable q and whose array A
// does not mention q, and returns it (written with in-scope symbols only).
func (vc *VC) selectPattern(body, q string) string {
	if vc.defBodies == nil {
		vc.defBodies = map[string][2]string{}
	}
	// index the parameterised definitions emitted so far
	for ; vc.defScanned < len(vc.lines); vc.defScanned++ {
		l := vc.lines[vc.defScanned]
		if !strings.HasPrefix(l, "(define-fun ") {
			continue
		}
		rest := l[len("(define-fun "):]
		sp := strings.IndexByte(rest, ' ')
		if sp < 0 {
			continue
		}
		name := rest[:sp]
		rest = rest[sp+1:]
		if !strings.HasPrefix(rest, "(") {
			continue
		}
		pe := matchClose(rest, 0)
		if pe < 0 {
			continue
		}
		params := rest[:pe+1]
		// skip the result sort
		r2 := strings.TrimSpace(rest[pe+1:])
		var bodyStart int
		if strings.HasPrefix(r2, "(") {
			se := matchClose(r2, 0)
			if se < 0 {
				continue
			}
			bodyStart = se + 1
		} else {
			bodyStart = strings.IndexByte(r2, ' ')
			if bodyStart < 0 {
				continue
			}
		}
		b := strings.TrimSpace(r2[bodyStart:])
		b = strings.TrimSuffix(b, ")")
		vc.defBodies[name] = [2]string{params, b}
	}
	var find func(t string, depth int) string
	find = func(t string, depth int) string {
		// direct occurrence
		needle := " " + q + ")"
		for from := 0; ; {
			i := strings.Index(t[from:], needle)
			if i < 0 {
				break
			}
			i += from
			end := i + len(needle)
			// walk back to the opening parenthesis of this application
			depthP := 0
			start := -1
			for k := end - 1; k >= 0; k-- {
				if t[k] == ')' {
					depthP++
				} else if t[k] == '(' {
					depthP--
					if depthP == 0 {
						start = k
						break
					}
				}
			}
			if start >= 0 && strings.HasPrefix(t[start:], "(select ") {
				arr := strings.TrimSpace(t[start+len("(select ") : i])
				if !mentions(arr, q) && !strings.Contains(arr, "(ite ") {
					return t[start:end]
				}
			}
			from = i + 1
		}
		if depth >= 4 {
			return ""
		}
		// expand applications of definitions that receive q
		for from := 0; from < len(t); {
			i := strings.Index(t[from:], "(g_")
			if i < 0 {
				break
			}
			i += from
			e := matchClose(t, i)
			if e < 0 {
				break
			}
			appl := t[i : e+1]
			from = i + 1
			sp := strings.IndexByte(appl, ' ')
			if sp < 0 {
				continue
			}
			name := appl[1:sp]
			d, ok := vc.defBodies[name]
			if !ok || !mentions(appl, q) {
				continue
			}
			// bind parameters to arguments
			var pnames []string
			for _, pd := range splitSexps(d[0][1 : len(d[0])-1]) {
				f := strings.Fields(strings.TrimPrefix(pd, "("))
				if len(f) > 0 {
					pnames = append(pnames, f[0])
				}
			}
			args := splitSexps(appl[sp+1 : len(appl)-1])
			if len(args) != len(pnames) {
				continue
			}
			ex := d[1]
			for k := range pnames {
				ex = replaceToken(ex, pnames[k], "\x00"+fmt.Sprint(k)+"\x00")
			}
			for k := range pnames {
				ex = strings.ReplaceAll(ex, "\x00"+fmt.Sprint(k)+"\x00", args[k])
			}
			if r := find(ex, depth+1); r != "" {
				return r
			}
		}
		return ""
	}
	pat := find(body, 0)
	if pat != "" && vc.expandsToIte(pat, 0, map[string]bool{}) {
		return "" // if-then-else cannot occur in a trigger
	}
	return pat
}

// expandsToIte: does the term, with the definitions it uses expanded, contain an if-then-else?
func (vc *VC) expandsToIte(t string, depth int, seen map[string]bool) bool {
	if strings.Contains(t, "(ite ") {
		return true
	}
	if depth > 8 {
		return false
	}
	for _, sname := range symRe.FindAllString(t, -1) {
		if seen[sname] {
			continue
		}
		seen[sname] = true
		if d, ok := vc.defBodies[sname]; ok {
			if vc.expandsToIte(d[1], depth+1, seen) {
				return true
			}
		}
	}
	return false
}

// splitSexps splits a sequence of s-expressions / atoms at the top level.
func splitSexps(s string) []string {
	var res []string
	for i := 0; i < len(s); {
		for i < len(s) && s[i] == ' ' {
			i++
		}
		if i >= len(s) {
			break
		}
		if s[i] == '(' {
			e := matchClose(s, i)
			if e < 0 {
				res = append(res, s[i:])
				break
			}
			res = append(res, s[i:e+1])
			i = e + 1
			continue
		}
		j := i
		for j < len(s) && s[j] != ' ' {
			j++
		}
		res = append(res, s[i:j])
		i = j
	}
	return res
}

// replaceToken replaces whole-token occurrences of name in s.
func replaceToken(s, name, by string) string {
	var b strings.Builder
	for from := 0; ; {
		i := strings.Index(s[from:], name)
		if i < 0 {
			b.WriteString(s[from:])
			break
		}
		i += from
		end := i + len(name)
		if (i == 0 || !isIdentChar(s[i-1])) && (end == len(s) || !isIdentChar(s[end])) {
			b.WriteString(s[from:i])
			b.WriteString(by)
		} else {
			b.WriteString(s[from:end])
		}
		from = end
	}
	return b.String()
}

// sliceOffsetOf finds the first term (bvadd (g_soff X) q) in body and returns
// (g_soff X), provided it does not itself mention q.
func sliceOffsetOf(body, q string) string {
	const pre = "(bvadd (g_soff "
	for from := 0; ; {
		i := strings.Index(body[from:], pre)
		if i < 0 {
			return ""
		}
		i += from
		start := i + len("(bvadd ")
		depth := 0
		end := -1
		for k := start; k < len(body); k++ {
			if body[k] == '(' {
				depth++
			} else if body[k] == ')' {
				depth--
				if depth == 0 {
					end = k + 1
					break
				}
			}
		}
		if end < 0 {
			return ""
		}
		off := body[start:end]
		if strings.HasPrefix(body[end:], " "+q+")") && !strings.Contains(off, q) {
			return off
		}
		from = i + 1
	}
}

// sameSeqPred declares, once per element sort, the predicate
//   sameseq(A, a, B, b, n)  ==  forall j. 0 <= j < n  ==>  A[a+j] = B[b+j]
// as an uninterpreted symbol with the consequences of that definition the
// proofs use (symmetry, transitivity, element access, the empty range). The
// definition itself is never unfolded by the solver: sequence equality is
// established by the model of copy() and carried through contracts as an atom.
func (vc *VC) sameSeqPred(et types.Type) string {
	es := vc.sorts().sortOf(et)
	name := "g_sameseq_" + vc.sorts().shortName("seq:"+es)
	arr := "(Array (_ BitVec 64) " + es + ")"
	bv := "(_ BitVec 64)"
	eng := vc.eng
	eng.needDecl(fmt.Sprintf("(declare-fun %s (%s %s %s %s %s) Bool)", name, arr, bv, arr, bv, bv))
	b5 := fmt.Sprintf("((g_A %s) (g_a %s) (g_B %s) (g_b %s) (g_n %s))", arr, bv, arr, bv, bv)
	at := func(A, a, B, b string) string { return fmt.Sprintf("(%s %s %s %s %s g_n)", name, A, a, B, b) }
	eng.needDecl(fmt.Sprintf("(assert (forall %s (! (=> %s %s) :pattern (%s))))", b5, at("g_A", "g_a", "g_B", "g_b"), at("g_B", "g_b", "g_A", "g_a"), at("g_A", "g_a", "g_B", "g_b")))
	eng.needDecl(fmt.Sprintf("(assert (forall %s (! (=> (bvsle g_n (_ bv0 64)) %s) :pattern (%s))))", b5, at("g_A", "g_a", "g_B", "g_b"), at("g_A", "g_a", "g_B", "g_b")))
	b3 := fmt.Sprintf("((g_A %s) (g_a %s) (g_n %s))", arr, bv, bv)
	eng.needDecl(fmt.Sprintf("(assert (forall %s (! %s :pattern (%s))))", b3, at("g_A", "g_a", "g_A", "g_a"), at("g_A", "g_a", "g_A", "g_a")))
	b7 := fmt.Sprintf("((g_A %s) (g_a %s) (g_B %s) (g_b %s) (g_C %s) (g_c %s) (g_n %s))", arr, bv, arr, bv, arr, bv, bv)
	eng.needDecl(fmt.Sprintf("(assert (forall %s (! (=> (and %s %s) %s) :pattern (%s %s))))", b7, at("g_A", "g_a", "g_B", "g_b"), at("g_B", "g_b", "g_C", "g_c"), at("g_A", "g_a", "g_C", "g_c"), at("g_A", "g_a", "g_B", "g_b"), at("g_B", "g_b", "g_C", "g_c")))
	b6 := fmt.Sprintf("((g_A %s) (g_a %s) (g_B %s) (g_b %s) (g_n %s) (g_j %s))", arr, bv, arr, bv, bv, bv)
	eng.needDecl(fmt.Sprintf("(assert (forall %s (! (=> (and %s (bvsle (_ bv0 64) g_j) (bvslt g_j g_n)) (= (select g_A (bvadd g_a g_j)) (select g_B (bvadd g_b g_j)))) :pattern (%s (select g_A (bvadd g_a g_j))))))", b6, at("g_A", "g_a", "g_B", "g_b"), at("g_A", "g_a", "g_B", "g_b")))
	return name
}

// ---------------------------------------------------------------------------
// Specification functions as SMT definitions
// ---------------------------------------------------------------------------

var noSpecDefs = os.Getenv("GOVC_NOSPECDEF") != ""

type specDef struct {
	keys    []string          // heap arrays the body reads (directly or through callees)
	usesNow bool              // the body uses a freshness predicate (depends on the allocation counter)
	defs    map[string]string // versions of those arrays -> name of the definition
}

type specTracker struct {
	keys    map[string]bool
	usesNow bool
}

// specDefCall translates a call of a specification function (spec_...) into an
// application of an SMT function definition whose parameters are the function's
// parameters and whose body is its symbolic execution in the current heap. One
// definition is shared by all calls made in states that agree on the heap
// arrays the body reads, so "the same predicate of the same objects" is the same
// term on both sides of an obligation and needs no quantifier reasoning.
func (fr *Frame) specDefCall(f *ssa.Function, c *ssa.CallCommon, args []Val, st *State) *Val {
	vc := fr.vc
	if f.Signature.Results().Len() != 1 {
		return nil
	}
	for _, a := range args {
		if a.Loc != nil || a.Tup != nil {
			return nil
		}
	}
	rt := f.Signature.Results().At(0).Type()
	if vc.specDefs == nil {
		vc.specDefs = map[*ssa.Function]*specDef{}
	}
	verKey := func(sd *specDef) string {
		var b strings.Builder
		fmt.Fprintf(&b, "e%d", st.epoch)
		for _, k := range sd.keys {
			b.WriteString("|")
			b.WriteString(vc.heapVer(st, k))
		}
		if sd.usesNow {
			now := st.next
			if vc.clauseNext != "" {
				now = vc.clauseNext
			}
			b.WriteString("|now:" + now + "|" + vc.frame.next0)
		}
		return b.String()
	}
	apply := func(name string) *Val {
		ts := make([]string, len(args))
		for i, a := range args {
			ts[i] = a.S
		}
		if len(ts) == 0 {
			return &Val{T: rt, S: name}
		}
		return &Val{T: rt, S: app(name, ts...)}
	}
	noteOuter := func(sd *specDef) {
		for _, t := range vc.specTrack {
			for _, k := range sd.keys {
				t.keys[k] = true
			}
			if sd.usesNow {
				t.usesNow = true
			}
		}
	}
	if sd := vc.specDefs[f]; sd != nil {
		if n, ok := sd.defs[verKey(sd)]; ok {
			noteOuter(sd)
			return apply(n)
		}
	}
	// symbolic parameters
	vc.qn++
	id := vc.qn
	params := make([]Val, len(args))
	var plist []string
	savedVars, savedCur, savedOff, savedRepl := vc.qvars, vc.qcur, vc.qoff, vc.qrepl
	vc.qvars = nil
	for i, p := range f.Params {
		n := fmt.Sprintf("g_sp%d_%d", id, i)
		srt := vc.sorts().sortOf(p.Type())
		params[i] = Val{T: p.Type(), S: n}
		plist = append(plist, "("+n+" "+srt+")")
		vc.qvars = append(vc.qvars, [2]string{n, srt})
	}
	vc.qcur, vc.qoff, vc.qrepl = "", "", nil
	tr := &specTracker{keys: map[string]bool{}}
	vc.specTrack = append(vc.specTrack, tr)
	vc.quant++
	// scratch allocations of the body (closure cells) live at a counter of their
	// own, so that the definition does not depend on the caller's allocation state
	st2 := st.clone()
	if !vc.declared["g_specnext"] {
		vc.declared["g_specnext"] = true
		vc.preamble = append(vc.preamble, "(declare-const g_specnext (_ BitVec 64))", "(assert (and (bvuge g_specnext #x2000000000000000) (bvult g_specnext #x3000000000000000)))")
	}
	st2.next = "g_specnext"
	res, _, _ := vc.execFunc(f, params, st2, "true", fr, true, nil)
	vc.quant--
	vc.specTrack = vc.specTrack[:len(vc.specTrack)-1]
	vc.qvars, vc.qcur, vc.qoff, vc.qrepl = savedVars, savedCur, savedOff, savedRepl
	if len(res) != 1 || res[0].Loc != nil || res[0].Tup != nil {
		panic(unsupported("specification function with a non-scalar result: " + f.Name()))
	}
	sd := vc.specDefs[f]
	if sd == nil {
		sd = &specDef{defs: map[string]string{}}
		vc.specDefs[f] = sd
	}
	sd.keys = sortedKeys(tr.keys)
	sd.usesNow = tr.usesNow
	name := vc.name("spec_" + strings.TrimPrefix(strings.TrimPrefix(f.Name(), "spec_"), "Spec_"))
	if len(plist) == 0 {
		vc.emit(fmt.Sprintf("(define-fun %s () %s %s)", name, vc.sorts().sortOf(rt), res[0].S))
	} else if vc.specHasQuant(res[0].S) {
		// A body with quantifiers is kept behind an uninterpreted symbol with a
		// definitional axiom (instantiated on the applications that occur): equal
		// arguments then give equal values by congruence, without the solver
		// having to match the quantified bodies of two expansions against each other.
		var srts, names []string
		for _, qv := range vc.qvarsOf(f, id) {
			srts = append(srts, qv[1])
			names = append(names, qv[0])
		}
		vc.emit(fmt.Sprintf("(declare-fun %s (%s) %s)", name, strings.Join(srts, " "), vc.sorts().sortOf(rt)))
		ap := "(" + name + " " + strings.Join(names, " ") + ")"
		vc.emit(fmt.Sprintf("(assert (forall (%s) (! (= %s %s) :pattern (%s))))", strings.Join(plist, " "), ap, res[0].S, ap))
	} else {
		vc.emit(fmt.Sprintf("(define-fun %s (%s) %s %s)", name, strings.Join(plist, " "), vc.sorts().sortOf(rt), res[0].S))
	}
	sd.defs[verKey(sd)] = name
	if os.Getenv("GOVC_DEBUGSPEC") != "" {
		fmt.Fprintf(os.Stderr, "specdef %s %s key=%s\n", f.Name(), name, verKey(sd))
	}
	noteOuter(sd)
	return apply(name)
}

func (vc *VC) qvarsOf(f *ssa.Function, id int) [][2]string {
	var res [][2]string
	for i, p := range f.Params {
		res = append(res, [2]string{fmt.Sprintf("g_sp%d_%d", id, i), vc.sorts().sortOf(p.Type())})
	}
	return res
}

// specHasQuant: does the term, with the definitions it uses, contain a quantifier?
func (vc *VC) specHasQuant(term string) bool {
	if strings.Contains(term, "(forall ") || strings.Contains(term, "(exists ") {
		return true
	}
	if vc.quantDefs == nil {
		vc.quantDefs = map[string]bool{}
		vc.quantScanned = 0
	}
	// definitions emitted so far that contain quantifiers (transitively)
	for ; vc.quantScanned < len(vc.lines); vc.quantScanned++ {
		l := vc.lines[vc.quantScanned]
		if !strings.HasPrefix(l, "(define-fun ") && !strings.HasPrefix(l, "(declare-fun g_spec_") {
			continue
		}
		f := strings.Fields(l)
		if len(f) < 2 {
			continue
		}
		if strings.HasPrefix(l, "(declare-fun g_spec_") {
			vc.quantDefs[f[1]] = true
			continue
		}
		if strings.Contains(l, "(forall ") || strings.Contains(l, "(exists ") {
			vc.quantDefs[f[1]] = true
			continue
		}
		for _, sname := range symRe.FindAllString(l, -1) {
			if sname != f[1] && vc.quantDefs[sname] {
				vc.quantDefs[f[1]] = true
				break
			}
		}
	}
	for _, sname := range symRe.FindAllString(term, -1) {
		if vc.quantDefs[sname] {
			return true
		}
	}
	return false
}

func usesAny(term string, vs []Val) bool {
	for _, v := range vs {
		if mentions(term, v.S) {
			return true
		}
	}
	return false
}

// clauseTags: the type tags the interface value returned by a modifies clause can
// have, read off the clause's code (conversions of typed pointers, verif_arrayof,
// nil, and specification functions built from these), as "#t1,t2,..."; when
// they cannot be determined, the symbolic tag term is returned instead.
func (eng *Engine) clauseTags(cl *Clause, symbolic string) string {
	if cl == nil || cl.Fn == nil {
		return symbolic
	}
	tags := map[int]bool{}
	if !eng.staticTags(cl.Fn, 0, tags) {
		return symbolic
	}
	var xs []string
	for t := range tags {
		xs = append(xs, fmt.Sprint(t))
	}
	sort.Strings(xs)
	return "#" + strings.Join(xs, ",")
}

func (eng *Engine) staticTags(fn *ssa.Function, depth int, tags map[int]bool) bool {
	if depth > 4 || len(fn.Blocks) == 0 {
		return false
	}
	var value func(v ssa.Value, d int) bool
	value = func(v ssa.Value, d int) bool {
		if d > 6 {
			return false
		}
		switch x := v.(type) {
		case *ssa.MakeInterface:
			tags[eng.typeTag(x.X.Type())] = true
			return true
		case *ssa.Const:
			return x.IsNil()
		case *ssa.Phi:
			for _, e := range x.Edges {
				if !value(e, d+1) {
					return false
				}
			}
			return true
		case *ssa.Call:
			callee, ok := x.Call.Value.(*ssa.Function)
			if !ok {
				return false
			}
			if strings.HasPrefix(callee.Name(), "verif_arrayof[") && len(x.Call.Args) == 1 {
				if st, ok := x.Call.Args[0].Type().Underlying().(*types.Slice); ok {
					tags[eng.pseudoTag("array:"+typeKey(st.Elem()))] = true
					return true
				}
				return false
			}
			if inModule(callee) {
				return eng.staticTags(callee, depth+1, tags)
			}
			return false
		}
		return false
	}
	for _, b := range fn.Blocks {
		for _, ins := range b.Instrs {
			if r, ok := ins.(*ssa.Return); ok {
				if len(r.Results) != 1 || !value(r.Results[0], 0) {
					return false
				}
			}
		}
	}
	return true
}

// specUsesQuant: does the specification function (or one it calls) contain a quantifier?
func (eng *Engine) specUsesQuant(f *ssa.Function, depth int) bool {
	if eng.specQuant == nil {
		eng.specQuant = map[*ssa.Function]bool{}
	}
	if v, ok := eng.specQuant[f]; ok {
		return v
	}
	eng.specQuant[f] = false
	res := false
	var scan func(fn *ssa.Function, d int)
	scan = func(fn *ssa.Function, d int) {
		if res || d > 8 {
			return
		}
		for _, b := range fn.Blocks {
			for _, ins := range b.Instrs {
				c, ok := ins.(ssa.CallInstruction)
				if !ok {
					continue
				}
				if callee, ok := c.Common().Value.(*ssa.Function); ok {
					n := callee.Name()
					if n == "verif_forall" || n == "verif_exists" || strings.HasPrefix(n, "verif_all[") {
						res = true
						return
					}
					if inModule(callee) && (strings.HasPrefix(n, "spec_") || strings.HasPrefix(n, "Spec_")) && len(callee.Blocks) > 0 {
						if eng.specUsesQuant(callee, d+1) {
							res = true
							return
						}
					}
				}
			}
		}
		for _, a := range fn.AnonFuncs {
			scan(a, d+1)
		}
	}
	scan(f, depth)
	eng.specQuant[f] = res
	return res
}
