package main

import (
	"fmt"
	"go/constant"
	"go/token"
	"go/types"
	"strings"

	"golang.org/x/tools/go/ssa"
)

// ---------------------------------------------------------------------------
// Symbolic values
// ---------------------------------------------------------------------------

type Val struct {
	T   types.Type
	S   string // SMT term (non-Loc, non-tuple values)
	Loc *Loc   // interior pointer (engine-level only)
	Tup []Val  // tuple
}

const (
	locStruct = iota // pointer to a struct object: Ref; needs a field step
	locField         // a field cell of a struct object, plus projections
	locBox           // cell of a box heap (pointer to non-struct), plus projections
	locElem          // element of a slice backing array, plus projections
)

type Step struct {
	Field int        // field index (when Arr == nil)
	In    types.Type // the struct or array type projected from
	Index string     // index term for arrays
	IsIdx bool
}

type Loc struct {
	Kind  int
	Key   string     // heap key of the root cell (not for locStruct)
	Ref   string     // object / array ref
	Idx   string     // element index (locElem)
	CellT types.Type // type of the root cell (struct type for locStruct)
	Path  []Step
	T     types.Type // type of the location's content
}

func ptrElem(t types.Type) types.Type {
	if p, ok := t.Underlying().(*types.Pointer); ok {
		return p.Elem()
	}
	panic(unsupported("not a pointer: " + t.String()))
}

func isPointerish(t types.Type) bool {
	switch t.Underlying().(type) {
	case *types.Pointer, *types.Map, *types.Chan, *types.Signature:
		return true
	}
	return false
}

// heap keys ---------------------------------------------------------------

func (vc *VC) fieldKey(structT types.Type, i int) string {
	st := structT.Underlying().(*types.Struct)
	key := fmt.Sprintf("F|%s|%d", vc.sorts().structKey(structT), i)
	vc.noteKeyObj(key, types.NewPointer(structT), "")
	vc.regHeap(key, "(Array (_ BitVec 64) "+vc.sorts().sortOf(st.Field(i).Type())+")", st.Field(i).Type())
	return key
}

func (vc *VC) boxKey(t types.Type) string {
	key := "B|" + typeKey(t)
	vc.noteKeyObj(key, types.NewPointer(t), "")
	vc.regHeap(key, "(Array (_ BitVec 64) "+vc.sorts().sortOf(t)+")", t)
	return key
}

func (vc *VC) elemKey(t types.Type) string {
	key := "E|" + typeKey(t)
	vc.noteKeyObj(key, nil, "array:"+typeKey(t))
	vc.regHeap(key, "(Array (_ BitVec 64) (Array (_ BitVec 64) "+vc.sorts().sortOf(t)+"))", t)
	return key
}

func (vc *VC) globalKey(g *ssa.Global) string {
	t := ptrElem(g.Type())
	key := "G|" + g.Pkg.Pkg.Path() + "." + g.Name()
	vc.regHeap(key, "(Array (_ BitVec 64) "+vc.sorts().sortOf(t)+")", t)
	return key
}

func (vc *VC) mapKeys(m *types.Map) (kv, kd, kc string) {
	id := typeKey(m.Key()) + "|" + typeKey(m.Elem())
	ks, vs := vc.mapKeySort(m), vc.sorts().sortOf(m.Elem())
	kv, kd, kc = "Mv|"+id, "Md|"+id, "Mc|"+id
	vc.regHeap(kv, fmt.Sprintf("(Array (_ BitVec 64) (Array %s %s))", ks, vs), m)
	vc.regHeap(kd, fmt.Sprintf("(Array (_ BitVec 64) (Array %s Bool))", ks), m)
	vc.regHeap(kc, "(Array (_ BitVec 64) (_ BitVec 64))", m)
	return
}

// locOf turns a pointer value into a location.
func (vc *VC) locOf(p Val) *Loc {
	if p.Loc != nil {
		return p.Loc
	}
	et := ptrElem(p.T)
	if _, ok := isStruct(et); ok {
		return &Loc{Kind: locStruct, Ref: p.S, CellT: et, T: et}
	}
	return &Loc{Kind: locBox, Key: vc.boxKeyFor(et), Ref: p.S, CellT: et, T: et}
}

// ptrTerm converts a pointer value to an SMT ref (needed when it escapes).
func (vc *VC) ptrTerm(p Val) string {
	if p.Loc == nil {
		return p.S
	}
	l := p.Loc
	if (l.Kind == locStruct || l.Kind == locBox) && len(l.Path) == 0 {
		return l.Ref
	}
	panic(unsupported("interior pointer escapes: " + l.T.String()))
}

func (vc *VC) project(cellT types.Type, term string, path []Step) string {
	for _, s := range path {
		if s.IsIdx {
			term = fmt.Sprintf("(select %s %s)", term, s.Index)
		} else {
			term = vc.sorts().selField(s.In, s.Field, term)
		}
	}
	return term
}

func (vc *VC) inject(term string, path []Step, v string) string {
	if len(path) == 0 {
		return v
	}
	s := path[0]
	if s.IsIdx {
		inner := fmt.Sprintf("(select %s %s)", term, s.Index)
		return fmt.Sprintf("(store %s %s %s)", term, s.Index, vc.inject(inner, path[1:], v))
	}
	inner := vc.sorts().selField(s.In, s.Field, term)
	return vc.sorts().updField(s.In, s.Field, term, vc.inject(inner, path[1:], v))
}

func (vc *VC) load(st *State, l *Loc) string {
	switch l.Kind {
	case locStruct:
		stt := l.CellT.Underlying().(*types.Struct)
		fs := make([]string, stt.NumFields())
		for i := range fs {
			fs[i] = vc.readCell(st, vc.fieldKey(l.CellT, i), l.Ref)
		}
		return vc.sorts().mkStruct(l.CellT, fs)
	case locField, locBox:
		return vc.project(l.CellT, vc.readCell(st, l.Key, l.Ref), l.Path)
	case locElem:
		arr := vc.readCell(st, l.Key, l.Ref)
		return vc.project(l.CellT, fmt.Sprintf("(select %s %s)", arr, l.Idx), l.Path)
	}
	panic("load")
}

func (vc *VC) store(st *State, l *Loc, v string) {
	switch l.Kind {
	case locStruct:
		stt := l.CellT.Underlying().(*types.Struct)
		for i := 0; i < stt.NumFields(); i++ {
			vc.writeCell(st, vc.fieldKey(l.CellT, i), l.Ref, vc.sorts().selField(l.CellT, i, v))
		}
	case locField, locBox:
		if len(l.Path) == 0 {
			vc.writeCell(st, l.Key, l.Ref, v)
		} else {
			cur := vc.readCell(st, l.Key, l.Ref)
			vc.writeCell(st, l.Key, l.Ref, vc.inject(cur, l.Path, v))
		}
	case locElem:
		arr := vc.readCell(st, l.Key, l.Ref)
		cur := fmt.Sprintf("(select %s %s)", arr, l.Idx)
		vc.writeCell(st, l.Key, l.Ref, fmt.Sprintf("(store %s %s %s)", arr, l.Idx, vc.inject(cur, l.Path, v)))
	}
}

// typing facts for values that come out of memory or from the environment.
func (vc *VC) typingFacts(st *State, t types.Type, term string) {
	switch u := t.Underlying().(type) {
	case *types.Pointer, *types.Map, *types.Chan:
		vc.assume(fmt.Sprintf("(bvult %s %s)", term, st.next))
	case *types.Slice:
		vc.assume(fmt.Sprintf("(and (bvult (g_sarr %s) %s) (bvsle (_ bv0 64) (g_slen %s)) (bvsle (g_slen %s) (g_scap %s)) (bvsle (g_soff %s) #x0000ffffffffffff) (bvsle (_ bv0 64) (g_soff %s)) (bvsle (g_scap %s) #x0000ffffffffffff) (=> (= (g_sarr %s) (_ bv0 64)) (= (g_scap %s) (_ bv0 64))))",
			term, st.next, term, term, term, term, term, term, term, term))
	case *types.Interface:
		vc.assume(fmt.Sprintf("(and (bvult (g_iref %s) %s) (=> (= (g_itag %s) (_ bv0 32)) (= (g_iref %s) (_ bv0 64))))", term, st.next, term, term))
	case *types.Basic:
		if u.Info()&types.IsString != 0 {
			vc.assume(fmt.Sprintf("(and (bvsle (_ bv0 64) (g_strlen %s)) (bvsle (g_strlen %s) #x0000ffffffffffff))", term, term))
		}
	}
}

// ---------------------------------------------------------------------------
// Frames
// ---------------------------------------------------------------------------

type retInfo struct {
	cond string
	vals []Val
	st   *State
	into []string // conditions of the edges that enter the returning block
}

type deferred struct {
	cond string
	call *ssa.CallCommon
	pos  token.Pos
	fr   *Frame
}

type Frame struct {
	loopLocks map[int]*State // lock state at loop heads (locks.go)
	vc       *VC
	fn       *ssa.Function
	id       int
	depth    int
	vals     map[ssa.Value]Val
	reach    map[int]string
	edge     map[[2]int]string
	end      map[int]*State
	rets     []retInfo
	defers   []deferred
	pure     bool      // evaluating a contract clause: no obligations, no stores
	contract *Contract // contract of fn when fn is the root under verification
	loops    *LoopInfo
	nilOK    map[string][]int // ref term -> blocks where non-nil was already checked
	path     string           // call path for obligation names
	parent   *Frame
	entryState *State
	variant  map[int]string // loop header -> variant term at header
	variantSigned map[int]bool
}

func (fr *Frame) oblFn() string {
	r := fr
	for r.parent != nil {
		r = r.parent
	}
	return r.vc.rootKey
}

// execFunc symbolically executes fn from state st; returns merged results.
func (vc *VC) execFunc(fn *ssa.Function, args []Val, st *State, reach string, parent *Frame, pure bool, contract *Contract) ([]Val, *State, string) {
	if len(fn.Blocks) == 0 {
		panic(unsupported("no body: " + fn.String()))
	}
	vc.nframes++
	fr := &Frame{vc: vc, fn: fn, id: vc.nframes, vals: map[ssa.Value]Val{}, reach: map[int]string{}, edge: map[[2]int]string{},
		end: map[int]*State{}, pure: pure, contract: contract, nilOK: map[string][]int{}, parent: parent, variant: map[int]string{}, variantSigned: map[int]bool{}}
	if parent != nil {
		fr.depth = parent.depth + 1
		fr.pure = fr.pure || parent.pure
		if !fr.pure && inModule(fn) {
			vc.assumptionsUsedInl(fn.String())
		}
	}
	if fr.depth > 12 {
		panic(unsupported("inlining too deep at " + fn.String()))
	}
	for i, p := range fn.Params {
		if i >= len(args) {
			panic(unsupported("arity mismatch calling " + fn.String()))
		}
		fr.vals[p] = args[i]
	}
	if vc.pendingFree != nil {
		for k, v := range vc.pendingFree {
			fr.vals[k] = v
		}
		vc.pendingFree = nil
	}
	fr.loops = vc.eng.loopInfo(fn)
	if fr.loops.rpo == nil {
		panic(unsupported("irreducible control flow in " + fn.String()))
	}
	fr.entryState = st
	fr.run(st.clone(), reach)
	if parent == nil && !pure && contract != nil {
		vc.rootRets = fr.rets
	}
	// merge returns
	if len(fr.rets) == 0 {
		return nil, st, "false"
	}
	var conds []string
	var sts []*State
	for _, r := range fr.rets {
		conds = append(conds, r.cond)
		sts = append(sts, r.st)
	}
	out := vc.mergeStates(conds, sts)
	nres := fn.Signature.Results().Len()
	res := make([]Val, nres)
	for i := 0; i < nres; i++ {
		res[i] = fr.rets[len(fr.rets)-1].vals[i]
		for j := len(fr.rets) - 2; j >= 0; j-- {
			res[i] = vc.iteVal(fr.rets[j].cond, fr.rets[j].vals[i], res[i])
		}
		if res[i].Loc == nil && res[i].Tup == nil {
			res[i].S = vc.def(vc.sorts().sortOf(res[i].T), "ret", res[i].S)
		}
	}
	return res, out, vc.def("Bool", "retreach", sOr(conds...))
}

func (vc *VC) iteVal(c string, a, b Val) Val {
	if a.Loc != nil || b.Loc != nil {
		if a.Loc != nil && b.Loc != nil {
			la, lb := a.Loc, b.Loc
			if la.Kind == lb.Kind && la.Key == lb.Key && len(la.Path) == len(lb.Path) {
				same := true
				for i := range la.Path {
					if la.Path[i].IsIdx != lb.Path[i].IsIdx || la.Path[i].Field != lb.Path[i].Field {
						same = false
					}
				}
				if same {
					n := *la
					n.Ref = sIte(c, la.Ref, lb.Ref)
					if la.Kind == locElem {
						n.Idx = sIte(c, la.Idx, lb.Idx)
					}
					n.Path = append([]Step(nil), la.Path...)
					for i := range n.Path {
						if n.Path[i].IsIdx {
							n.Path[i].Index = sIte(c, la.Path[i].Index, lb.Path[i].Index)
						}
					}
					return Val{T: a.T, Loc: &n}
				}
			}
		}
		// mixed: both must be convertible to refs
		return Val{T: a.T, S: sIte(c, vc.ptrTerm(a), vc.ptrTerm(b))}
	}
	if a.Tup != nil {
		t := make([]Val, len(a.Tup))
		for i := range t {
			t[i] = vc.iteVal(c, a.Tup[i], b.Tup[i])
		}
		return Val{T: a.T, Tup: t}
	}
	return Val{T: a.T, S: sIte(c, a.S, b.S)}
}

func (fr *Frame) get(v ssa.Value) Val {
	switch x := v.(type) {
	case *ssa.Const:
		return fr.vc.constVal(x)
	case *ssa.Global:
		t := ptrElem(x.Type())
		return Val{T: x.Type(), Loc: &Loc{Kind: locBox, Key: fr.vc.globalKey(x), Ref: bvConst(1, 64), CellT: t, T: t}}
	case *ssa.Function:
		return Val{T: x.Type(), S: fr.vc.eng.funcRef(x)}
	case *ssa.Builtin:
		panic(unsupported("builtin as value"))
	}
	if val, ok := fr.vals[v]; ok {
		return val
	}
	if fv, ok := v.(*ssa.FreeVar); ok {
		panic(unsupported("free variable " + fv.Name() + " in " + fr.fn.String()))
	}
	panic(unsupported(fmt.Sprintf("value %s (%T) not computed in %s", v.Name(), v, fr.fn.String())))
}

func (vc *VC) constVal(c *ssa.Const) Val {
	t := c.Type()
	if c.Value == nil { // zero value / nil
		if b, ok := t.Underlying().(*types.Basic); ok && b.Kind() == types.UntypedNil {
			return Val{T: t, S: bvConst(0, 64)}
		}
		return Val{T: t, S: vc.sorts().zero(t)}
	}
	switch u := t.Underlying().(type) {
	case *types.Basic:
		if u.Info()&types.IsBoolean != 0 {
			if constant.BoolVal(c.Value) {
				return Val{T: t, S: "true"}
			}
			return Val{T: t, S: "false"}
		}
		if w, signed, ok := intWidth(u); ok {
			iv := constant.ToInt(c.Value)
			if signed {
				x, _ := constant.Int64Val(iv)
				return Val{T: t, S: bvConst(uint64(x), w)}
			}
			x, _ := constant.Uint64Val(iv)
			return Val{T: t, S: bvConst(x, w)}
		}
		if u.Info()&types.IsString != 0 {
			return Val{T: t, S: vc.strConst(constant.StringVal(c.Value))}
		}
		if u.Info()&types.IsFloat != 0 {
			f, _ := constant.Float64Val(c.Value)
			return Val{T: t, S: vc.eng.floatConst(f)}
		}
	}
	panic(unsupported("constant " + c.String()))
}

// run executes all blocks of the frame's function.
func (fr *Frame) run(st *State, reach string) {
	vc := fr.vc
	fn := fr.fn
	order := fr.loops.rpo
	for _, b := range order {
		vc.budget -= len(b.Instrs)
		if vc.budget < 0 {
			panic(unsupported("VC size cap exceeded in " + vc.rootKey))
		}
		var cur *State
		var r string
		var inConds []string
		var inPreds []int // indices into b.Preds
		if b.Index == 0 {
			cur, r = st, reach
		} else {
			var sts []*State
			for pi, p := range b.Preds {
				if fr.loops.isBack(p, b) {
					continue
				}
				ec, ok := fr.edge[[2]int{p.Index, b.Index}]
				if !ok || ec == "false" {
					continue
				}
				inConds = append(inConds, ec)
				inPreds = append(inPreds, pi)
				sts = append(sts, fr.end[p.Index])
			}
			if len(sts) == 0 {
				continue // unreachable
			}
			r = vc.def("Bool", fmt.Sprintf("R%d_b%d", fr.id, b.Index), sOr(inConds...))
			cur = vc.mergeStates(inConds, sts)
		}
		fr.reach[b.Index] = r
		phiVal := func(phi *ssa.Phi) Val {
			val := fr.get(phi.Edges[inPreds[len(inPreds)-1]])
			for i := len(inPreds) - 2; i >= 0; i-- {
				val = vc.iteVal(inConds[i], fr.get(phi.Edges[inPreds[i]]), val)
			}
			val.T = phi.Type()
			if val.Loc == nil && val.Tup == nil {
				val.S = vc.def(vc.sorts().sortOf(phi.Type()), fmt.Sprintf("v%d_%s", fr.id, phi.Name()), val.S)
			}
			return val
		}
		isHeader := fr.loops.headers[b.Index] != nil
		if isHeader {
			fr.enterLoop(b, cur, r, phiVal)
		}
		for _, ins := range b.Instrs {
			if phi, ok := ins.(*ssa.Phi); ok {
				if !isHeader {
					fr.vals[phi] = phiVal(phi)
				}
				continue
			}
			fr.step(b, ins, cur, r)
		}
		fr.end[b.Index] = cur
		_ = fn
	}
}

func (fr *Frame) setEdge(from, to *ssa.BasicBlock, cond string) {
	k := [2]int{from.Index, to.Index}
	if old, ok := fr.edge[k]; ok {
		cond = sOr(old, cond)
	}
	fr.edge[k] = cond
}

func (fr *Frame) valName(v ssa.Value) string { return fmt.Sprintf("v%d_%s", fr.id, v.Name()) }

func (fr *Frame) bind(v ssa.Value, val Val) {
	if val.Loc == nil && val.Tup == nil {
		val.S = fr.vc.def(fr.vc.sorts().sortOf(v.Type()), fr.valName(v), val.S)
	}
	val.T = v.Type()
	fr.vals[v] = val
}

// safety obligation helper
func (fr *Frame) safe(kind string, reach, goal string, pos token.Pos) {
	if fr.pure || goal == "true" {
		return
	}
	vc := fr.vc
	if vc.noSafety && vc.safetyOnly[kind] && fr.parent == nil {
		// nosafety with an exception: this kind of panic is checked in the function's own body
	} else if vc.noSafety {
		// contract without safety obligations: absence of panics is assumed here
		// (and says so in the evidence); only the explicit clauses are checked
		vc.assume(sImp(reach, goal))
		return
	}
	root := fr.oblFn()
	base := fmt.Sprintf("safe:%s:%s", root, kind)
	vc.eng.safeOrd[base]++
	name := fmt.Sprintf("%s#%d", base, vc.eng.safeOrd[base]-1)
	o := vc.addObl("safe", root, name, reach, goal, pos)
	if fr.parent != nil {
		o.Detail = "in inlined " + fr.fn.String()
	}
	// assert-then-assume
	vc.assume(sImp(reach, goal))
}

func (fr *Frame) checkNonNil(b *ssa.BasicBlock, ref string, reach string, pos token.Pos) {
	if fr.pure || fr.vc.freshRefs[ref] {
		return
	}
	for _, bi := range fr.nilOK[ref] {
		if fr.fn.Blocks[bi].Dominates(b) {
			return
		}
	}
	fr.nilOK[ref] = append(fr.nilOK[ref], b.Index)
	fr.safe("nil", reach, sNot(sEq(ref, bvConst(0, 64))), pos)
}

func (fr *Frame) step(b *ssa.BasicBlock, ins ssa.Instruction, st *State, reach string) {
	vc := fr.vc
	S := vc.sorts()
	switch x := ins.(type) {
	case *ssa.DebugRef:
		return
	case *ssa.Alloc:
		t := ptrElem(x.Type())
		ref := vc.alloc(st)
		pv := Val{T: x.Type(), S: ref}
		vc.store(st, vc.locOf(pv), S.zero(t))
		fr.bind(x, pv)
	case *ssa.FieldAddr:
		p := fr.get(x.X)
		l := vc.locOf(p)
		stT := ptrElem(x.X.Type())
		ft := stT.Underlying().(*types.Struct).Field(x.Field).Type()
		var nl *Loc
		if l.Kind == locStruct {
			fr.checkNonNil(b, l.Ref, reach, x.Pos())
			nl = &Loc{Kind: locField, Key: vc.fieldKey(l.CellT, x.Field), Ref: l.Ref, CellT: ft, T: ft}
		} else {
			if l.Kind == locBox && len(l.Path) == 0 {
				fr.checkNonNil(b, l.Ref, reach, x.Pos())
			}
			n := *l
			n.Path = append(append([]Step(nil), l.Path...), Step{Field: x.Field, In: stT})
			n.T = ft
			nl = &n
		}
		fr.vals[x] = Val{T: x.Type(), Loc: nl}
	case *ssa.Field:
		v := fr.get(x.X)
		fr.bind(x, Val{S: S.selField(x.X.Type(), x.Field, v.S)})
		vc.typingFacts(st, x.Type(), fr.vals[x].S)
	case *ssa.IndexAddr:
		fr.indexAddr(b, x, st, reach)
	case *ssa.Index:
		fr.index(b, x, st, reach)
	case *ssa.UnOp:
		fr.unop(b, x, st, reach)
	case *ssa.BinOp:
		a, c := fr.get(x.X), fr.get(x.Y)
		fr.bind(x, Val{S: fr.binop(b, x.Op, a, c, x.X.Type(), x.Y.Type(), reach, x.Pos())})
	case *ssa.Store:
		p := fr.get(x.Addr)
		l := vc.locOf(p)
		if (l.Kind == locStruct || l.Kind == locBox) && len(l.Path) == 0 {
			fr.checkNonNil(b, l.Ref, reach, x.Pos())
		}
		v := fr.get(x.Val)
		fr.frameCheck(b, l, st, reach, x.Pos())
		fr.guardCheck(l, st, reach, x.Pos(), true)
		vc.store(st, l, vc.valTerm(v))
	case *ssa.Convert:
		fr.convert(x, st)
	case *ssa.ChangeType:
		v := fr.get(x.X)
		v.T = x.Type()
		fr.vals[x] = v
	case *ssa.ChangeInterface:
		v := fr.get(x.X)
		v.T = x.Type()
		fr.vals[x] = v
	case *ssa.MakeInterface:
		fr.makeInterface(x, st)
	case *ssa.TypeAssert:
		fr.typeAssert(b, x, st, reach)
	case *ssa.Extract:
		t := fr.get(x.Tuple)
		if t.Tup == nil {
			panic(unsupported("extract from non-tuple"))
		}
		fr.vals[x] = t.Tup[x.Index]
	case *ssa.Call:
		res := fr.call(b, x, x.Common(), st, reach)
		if res != nil {
			fr.vals[x] = *res
		}
	case *ssa.MakeSlice:
		fr.makeSlice(b, x, st, reach)
	case *ssa.Slice:
		fr.slice(b, x, st, reach)
	case *ssa.MakeMap:
		ref := vc.alloc(st)
		m := x.Type().Underlying().(*types.Map)
		kv, kd, kc := vc.mapKeys(m)
		_ = kv
		vc.writeCell(st, kd, ref, fmt.Sprintf("((as const (Array %s Bool)) false)", vc.mapKeySort(m)))
		vc.writeCell(st, kc, ref, bvConst(0, 64))
		fr.bind(x, Val{S: ref})
	case *ssa.MapUpdate:
		fr.guardContents(x.Map, st, reach, x.Pos())
		fr.mapUpdate(b, x, st, reach)
	case *ssa.Lookup:
		fr.lookup(b, x, st, reach)
	case *ssa.Range:
		fr.rangeStart(x, st)
	case *ssa.Next:
		fr.rangeNext(x, st)
	case *ssa.MakeChan:
		ref := vc.alloc(st)
		vc.writeCell(st, vc.ghostKey("Gh|chclosed"), ref, "false")
		fr.bind(x, Val{S: ref})
	case *ssa.MakeClosure:
		// closures are opaque values; bindings are remembered for immediate calls
		ref := vc.alloc(st)
		fr.bind(x, Val{S: ref})
		vc.eng.closures[ref] = &closureInfo{fn: x.Fn.(*ssa.Function), bindings: x.Bindings, fr: fr}
	case *ssa.Send:
		// no blocking semantics; with `noblock` the send is an obligation (locks.go)
		vc.blockObl(fr, st, reach, x.Pos(), "channel send")
	case *ssa.Select:
		if x.Blocking {
			vc.blockObl(fr, st, reach, x.Pos(), "select without default")
		}
		fr.selectStmt(x, st)
	case *ssa.Go:
		vc.trust("go statements: spawned goroutine effects are not part of the spawning thread's state")
	case *ssa.Defer:
		fr.defers = append(fr.defers, deferred{cond: reach, call: x.Common(), pos: x.Pos(), fr: fr})
		// evaluate arguments now (Go semantics); keep values bound in frame.vals (SSA values are immutable)
	case *ssa.RunDefers:
		for i := len(fr.defers) - 1; i >= 0; i-- {
			d := fr.defers[i]
			if d.cond == "false" {
				continue
			}
			// run the deferred call under its condition
			if d.cond == reach || d.cond == fr.reach[0] {
				fr.callCommon(b, nil, d.call, st, reach, d.pos)
			} else {
				alt := st.clone()
				fr.callCommon(b, nil, d.call, alt, sAnd(reach, d.cond), d.pos)
				m := vc.mergeStates([]string{d.cond}, []*State{alt, st})
				*st = *m
			}
		}
	case *ssa.If:
		c := fr.get(x.Cond).S
		fr.setEdge(b, b.Succs[0], vc.def("Bool", fmt.Sprintf("E%d_%d_%d", fr.id, b.Index, b.Succs[0].Index), sAnd(reach, c)))
		fr.setEdge(b, b.Succs[1], vc.def("Bool", fmt.Sprintf("E%d_%d_%d", fr.id, b.Index, b.Succs[1].Index), sAnd(reach, sNot(c))))
		fr.backEdges(b, st)
	case *ssa.Jump:
		fr.setEdge(b, b.Succs[0], reach)
		fr.backEdges(b, st)
	case *ssa.Return:
		vals := make([]Val, len(x.Results))
		for i, r := range x.Results {
			vals[i] = fr.get(r)
			vals[i].T = fr.fn.Signature.Results().At(i).Type()
		}
		var into []string
		for _, pb := range b.Preds {
			if c, ok := fr.edge[[2]int{pb.Index, b.Index}]; ok {
				into = append(into, c)
			}
		}
		fr.rets = append(fr.rets, retInfo{cond: reach, vals: vals, st: st.clone(), into: into})
	case *ssa.Panic:
		fr.safe("panic", reach, "false", x.Pos())
	case *ssa.SliceToArrayPointer, *ssa.MultiConvert:
		panic(unsupported(fmt.Sprintf("instruction %T", ins)))
	default:
		panic(unsupported(fmt.Sprintf("instruction %T", ins)))
	}
}

// valTerm gives the SMT term of a value that is about to be stored or passed.
func (vc *VC) valTerm(v Val) string {
	if v.Loc != nil {
		return vc.ptrTerm(v)
	}
	if v.Tup != nil {
		panic(unsupported("tuple as term"))
	}
	return v.S
}

func (fr *Frame) unop(b *ssa.BasicBlock, x *ssa.UnOp, st *State, reach string) {
	vc := fr.vc
	v := fr.get(x.X)
	switch x.Op {
	case token.MUL:
		if g, ok := x.X.(*ssa.Global); ok && g.Pkg != nil && g.Pkg.Pkg.Path() == "io" && g.Name() == "EOF" {
			fr.bind(x, Val{S: vc.eng.eofErr()})
			return
		}
		if g, ok := x.X.(*ssa.Global); ok {
			if k := vc.eng.constGlobal(g); k != nil {
				// a package variable of basic type that is written only by its
				// initialiser: its value is the initial one
				fr.bind(x, vc.constVal(k))
				return
			}
		}
		l := vc.locOf(v)
		if (l.Kind == locStruct || l.Kind == locBox) && len(l.Path) == 0 {
			fr.checkNonNil(b, l.Ref, reach, x.Pos())
		}
		fr.guardCheck(l, st, reach, x.Pos(), false)
		fr.bind(x, Val{S: vc.load(st, l)})
		vc.typingFacts(st, x.Type(), fr.vals[x].S)
	case token.NOT:
		fr.bind(x, Val{S: sNot(v.S)})
	case token.SUB:
		if isFloat(x.Type()) {
			fr.bind(x, Val{S: app("g_fneg", v.S)})
			vc.eng.needFloat()
			return
		}
		fr.bind(x, Val{S: app("bvneg", v.S)})
	case token.XOR:
		fr.bind(x, Val{S: app("bvnot", v.S)})
	case token.ARROW:
		// channel receive: unconstrained value (no blocking semantics)
		vc.blockObl(fr, st, reach, x.Pos(), "channel receive")
		var et types.Type
		if x.CommaOk {
			et = x.Type().(*types.Tuple).At(0).Type()
		} else {
			et = x.Type()
		}
		val := Val{T: et, S: vc.fresh(vc.sorts().sortOf(et), "recv")}
		vc.typingFacts(st, et, val.S)
		if x.CommaOk {
			fr.vals[x] = Val{T: x.Type(), Tup: []Val{val, {T: types.Typ[types.Bool], S: vc.fresh("Bool", "recvok")}}}
		} else {
			fr.vals[x] = val
		}
	default:
		panic(unsupported("unop " + x.Op.String()))
	}
}

func (fr *Frame) binop(b *ssa.BasicBlock, op token.Token, a, c Val, ta, tc types.Type, reach string, pos token.Pos) string {
	vc := fr.vc
	if w, signed, ok := isIntType(ta); ok {
		as, cs := a.S, c.S
		switch op {
		case token.SHL, token.SHR:
			wc, csigned, _ := isIntType(tc)
			amt := cs
			var over string = "false"
			if csigned {
				fr.safe("shift", reach, app("bvsge", cs, bvConst(0, wc)), pos)
			}
			if wc < w {
				amt = fmt.Sprintf("((_ zero_extend %d) %s)", w-wc, cs)
			} else if wc > w {
				over = app("bvuge", cs, bvConst(uint64(w), wc))
				amt = fmt.Sprintf("((_ extract %d 0) %s)", w-1, cs)
			}
			var r string
			if op == token.SHL {
				r = app("bvshl", as, amt)
				return sIte(over, bvConst(0, w), r)
			}
			if signed {
				r = app("bvashr", as, amt)
				return sIte(over, app("bvashr", as, bvConst(uint64(w-1), w)), r)
			}
			r = app("bvlshr", as, amt)
			return sIte(over, bvConst(0, w), r)
		case token.ADD:
			return app("bvadd", as, cs)
		case token.SUB:
			return app("bvsub", as, cs)
		case token.MUL:
			return app("bvmul", as, cs)
		case token.QUO:
			fr.safe("div", reach, sNot(sEq(cs, bvConst(0, w))), pos)
			if signed {
				return app("bvsdiv", as, cs)
			}
			return app("bvudiv", as, cs)
		case token.REM:
			fr.safe("div", reach, sNot(sEq(cs, bvConst(0, w))), pos)
			if signed {
				return app("bvsrem", as, cs)
			}
			return app("bvurem", as, cs)
		case token.AND:
			return app("bvand", as, cs)
		case token.OR:
			return app("bvor", as, cs)
		case token.XOR:
			return app("bvxor", as, cs)
		case token.AND_NOT:
			return app("bvand", as, app("bvnot", cs))
		case token.EQL:
			return sEq(as, cs)
		case token.NEQ:
			return sNot(sEq(as, cs))
		case token.LSS:
			if signed {
				return app("bvslt", as, cs)
			}
			return app("bvult", as, cs)
		case token.LEQ:
			if signed {
				return app("bvsle", as, cs)
			}
			return app("bvule", as, cs)
		case token.GTR:
			if signed {
				return app("bvsgt", as, cs)
			}
			return app("bvugt", as, cs)
		case token.GEQ:
			if signed {
				return app("bvsge", as, cs)
			}
			return app("bvuge", as, cs)
		}
	}
	if isString(ta) {
		switch op {
		case token.EQL:
			return sEq(a.S, c.S)
		case token.NEQ:
			return sNot(sEq(a.S, c.S))
		case token.ADD:
			r := app("g_strcat", a.S, c.S)
			vc.assume(sEq(app("g_strlen", r), app("bvadd", app("g_strlen", a.S), app("g_strlen", c.S))))
			return r
		case token.LSS:
			return app("g_strlt", a.S, c.S)
		case token.GTR:
			return app("g_strlt", c.S, a.S)
		case token.LEQ:
			return sNot(app("g_strlt", c.S, a.S))
		case token.GEQ:
			return sNot(app("g_strlt", a.S, c.S))
		}
	}
	if isFloat(ta) {
		vc.eng.needFloat()
		switch op {
		case token.ADD:
			return app("g_fadd", a.S, c.S)
		case token.SUB:
			return app("g_fsub", a.S, c.S)
		case token.MUL:
			return app("g_fmul", a.S, c.S)
		case token.QUO:
			return app("g_fdiv", a.S, c.S)
		case token.EQL:
			return app("g_feq", a.S, c.S)
		case token.NEQ:
			return sNot(app("g_feq", a.S, c.S))
		case token.LSS:
			return app("g_flt", a.S, c.S)
		case token.GTR:
			return app("g_flt", c.S, a.S)
		case token.LEQ:
			return app("g_fle", a.S, c.S)
		case token.GEQ:
			return app("g_fle", c.S, a.S)
		}
	}
	// equality on everything else
	switch op {
	case token.EQL, token.NEQ:
		var e string
		if isIface(ta) || isIface(tc) {
			e = fr.ifaceEq(a, c, ta, tc)
		} else if _, ok := ta.Underlying().(*types.Slice); ok {
			// only comparison with nil is legal
			s := a.S
			if s == bvConst(0, 64) || isNilConst(a) {
				s = c.S
			}
			e = sEq(app("g_sarr", s), bvConst(0, 64))
		} else if _, ok := tc.Underlying().(*types.Slice); ok {
			e = sEq(app("g_sarr", c.S), bvConst(0, 64))
		} else if arr, ok := ta.Underlying().(*types.Array); ok && arr.Len() <= 64 && isBasicType(arr.Elem()) {
			// Go arrays are equal when their elements are (the SMT arrays that
			// represent them have further, meaningless cells)
			x, y := vc.valTerm(a), vc.valTerm(c)
			var parts []string
			for i := int64(0); i < arr.Len(); i++ {
				ii := bvConst(uint64(i), 64)
				parts = append(parts, fmt.Sprintf("(= (select %s %s) (select %s %s))", x, ii, y, ii))
			}
			e = vc.def("Bool", "arreq", sAnd(parts...))
		} else {
			e = sEq(vc.valTerm(a), vc.valTerm(c))
		}
		if op == token.NEQ {
			return sNot(e)
		}
		return e
	case token.AND: // bool & bool does not occur in SSA, but be safe
		return sAnd(a.S, c.S)
	case token.OR:
		return sOr(a.S, c.S)
	}
	panic(unsupported(fmt.Sprintf("binop %s on %s", op, ta)))
}

func isNilConst(v Val) bool {
	if b, ok := v.T.(*types.Basic); ok && b.Kind() == types.UntypedNil {
		return true
	}
	return false
}

func (fr *Frame) ifaceEq(a, c Val, ta, tc types.Type) string {
	as, cs := a.S, c.S
	if !isIface(ta) {
		as = "g_niliface"
		if !isNilConst(a) {
			panic(unsupported("interface compared with concrete value"))
		}
	}
	if !isIface(tc) {
		cs = "g_niliface"
		if !isNilConst(c) {
			panic(unsupported("interface compared with concrete value"))
		}
	}
	if as == "g_niliface" {
		return sEq(app("g_itag", cs), bvConst(0, 32))
	}
	if cs == "g_niliface" {
		return sEq(app("g_itag", as), bvConst(0, 32))
	}
	// boxed payloads compare by reference here; value comparison of boxed
	// payloads is not modelled (listed as an assumption when it occurs)
	fr.vc.trust("interface == interface compares boxed payloads by identity")
	return sEq(as, cs)
}

func (fr *Frame) convert(x *ssa.Convert, st *State) {
	vc := fr.vc
	v := fr.get(x.X)
	from, to := x.X.Type(), x.Type()
	if wf, sf, ok := isIntType(from); ok {
		if wt, _, ok2 := isIntType(to); ok2 {
			fr.bind(x, Val{S: convInt(v.S, wf, sf, wt)})
			return
		}
		if isFloat(to) {
			vc.eng.needFloat()
			if sf {
				fr.bind(x, Val{S: app("g_i2f", convInt(v.S, wf, true, 64))})
			} else {
				fr.bind(x, Val{S: app("g_u2f", convInt(v.S, wf, false, 64))})
			}
			return
		}
		if isString(to) {
			s := vc.fresh("g_Str", "runestr")
			fr.bind(x, Val{S: s})
			return
		}
	}
	if isFloat(from) {
		vc.eng.needFloat()
		if wt, st2, ok := isIntType(to); ok {
			var r string
			if st2 {
				r = app("g_f2i", v.S)
			} else {
				r = app("g_f2u", v.S)
			}
			fr.bind(x, Val{S: convInt(r, 64, st2, wt)})
			return
		}
		if isFloat(to) {
			fr.bind(x, v)
			return
		}
	}
	if isString(from) {
		if sl, ok := to.Underlying().(*types.Slice); ok {
			// []byte(s): fresh array with the string's bytes
			if w, _, ok := isIntType(sl.Elem()); ok && w == 8 {
				ref := vc.alloc(st)
				arr := vc.fresh("(Array (_ BitVec 64) (_ BitVec 8))", "strbytes")
				vc.eng.needStrBytes()
				vc.assume(fmt.Sprintf("(= %s (g_strbytes %s))", arr, v.S))
				vc.writeCell(st, vc.elemKey(sl.Elem()), ref, arr)
				ln := app("g_strlen", v.S)
				fr.bind(x, Val{S: fmt.Sprintf("(g_mkslice %s (_ bv0 64) %s %s)", ref, ln, ln)})
				return
			}
		}
		if isString(to) {
			fr.bind(x, v)
			return
		}
	}
	if sl, ok := from.Underlying().(*types.Slice); ok && isString(to) {
		_ = sl
		s := vc.fresh("g_Str", "bytestr")
		vc.assume(sEq(app("g_strlen", s), app("g_slen", v.S)))
		fr.bind(x, Val{S: s})
		return
	}
	if isPointerish(from) || isPointerish(to) {
		v.T = to
		fr.vals[x] = v
		return
	}
	panic(unsupported(fmt.Sprintf("convert %s -> %s", from, to)))
}

func convInt(term string, wf int, signedFrom bool, wt int) string {
	switch {
	case wf == wt:
		return term
	case wt < wf:
		return fmt.Sprintf("((_ extract %d 0) %s)", wt-1, term)
	case signedFrom:
		return fmt.Sprintf("((_ sign_extend %d) %s)", wt-wf, term)
	default:
		return fmt.Sprintf("((_ zero_extend %d) %s)", wt-wf, term)
	}
}

func (fr *Frame) makeInterface(x *ssa.MakeInterface, st *State) {
	vc := fr.vc
	v := fr.get(x.X)
	t := x.X.Type()
	tag := vc.eng.typeTag(t)
	var ref string
	if v.Loc != nil && !((v.Loc.Kind == locStruct || v.Loc.Kind == locBox) && len(v.Loc.Path) == 0) {
		// interior pointer boxed in an interface (e.g. &x.f in a []interface{} literal):
		// opaque reference; the location is remembered for a later type assertion
		ref = vc.alloc(st)
		vc.eng.ifaceLocs[ref] = v.Loc
	} else if isPointerish(t) {
		ref = vc.valTerm(v)
	} else {
		ref = vc.alloc(st)
		vc.writeCell(st, vc.boxKey(t), ref, vc.valTerm(v))
	}
	fr.bind(x, Val{S: fmt.Sprintf("(g_mkiface %s %s)", bvConst(uint64(tag), 32), ref)})
}

func (fr *Frame) typeAssert(b *ssa.BasicBlock, x *ssa.TypeAssert, st *State, reach string) {
	vc := fr.vc
	v := fr.get(x.X)
	at := x.AssertedType
	var ok, val string
	var vt types.Type = at
	if isIface(at) {
		// interface-to-interface: closed world over the types seen by the engine
		ok = vc.eng.implementsTerm(vc, app("g_itag", v.S), at)
		val = v.S
	} else {
		tag := vc.eng.typeTag(at)
		ok = sEq(app("g_itag", v.S), bvConst(uint64(tag), 32))
		if isPointerish(at) {
			val = app("g_iref", v.S)
		} else {
			val = vc.readCell(st, vc.boxKey(at), app("g_iref", v.S))
		}
	}
	if x.CommaOk {
		okn := vc.def("Bool", "taok", ok)
		res := Val{T: vt, S: vc.def(vc.sorts().sortOf(vt), "ta", sIte(okn, val, vc.sorts().zero(vt)))}
		fr.vals[x] = Val{T: x.Type(), Tup: []Val{res, {T: types.Typ[types.Bool], S: okn}}}
		return
	}
	fr.safe("assert", reach, ok, x.Pos())
	fr.bind(x, Val{S: val})
	vc.typingFacts(st, at, fr.vals[x].S)
}

func (fr *Frame) selectStmt(x *ssa.Select, st *State) {
	vc := fr.vc
	tup := x.Type().(*types.Tuple)
	vals := make([]Val, tup.Len())
	idx := vc.fresh(bvSort(64), "selidx")
	n := len(x.States)
	lo := "(_ bv0 64)"
	if !x.Blocking {
		lo = "#xffffffffffffffff"
	}
	vc.assume(fmt.Sprintf("(and (bvsle %s %s) (bvslt %s %s))", lo, idx, idx, bvConst(uint64(n), 64)))
	vals[0] = Val{T: tup.At(0).Type(), S: idx}
	vals[1] = Val{T: tup.At(1).Type(), S: vc.fresh("Bool", "selok")}
	for i := 2; i < tup.Len(); i++ {
		t := tup.At(i).Type()
		vals[i] = Val{T: t, S: vc.fresh(vc.sorts().sortOf(t), "selrecv")}
		vc.typingFacts(st, t, vals[i].S)
	}
	fr.vals[x] = Val{T: x.Type(), Tup: vals}
	vc.trust("select/channel operations are nondeterministic choices without blocking semantics")
}

var _ = strings.Contains

// Map keys of a fixed-size array type (e.g. [20]byte hashes) are represented by
// the bit-vector that concatenates the elements: solvers do not index arrays by
// arrays, and two Go arrays are equal exactly when these bit-vectors are.
func arrayKeyBits(m *types.Map) (n int, w int, ok bool) {
	a, isArr := m.Key().Underlying().(*types.Array)
	if !isArr {
		return 0, 0, false
	}
	b, isB := a.Elem().Underlying().(*types.Basic)
	if !isB {
		return 0, 0, false
	}
	w, _, isInt := intWidth(b)
	if !isInt || a.Len() <= 0 || int(a.Len())*w > 1024 {
		return 0, 0, false
	}
	return int(a.Len()), w, true
}

func (vc *VC) mapKeySort(m *types.Map) string {
	if n, w, ok := arrayKeyBits(m); ok {
		return bvSort(n * w)
	}
	return vc.sorts().sortOf(m.Key())
}

func (vc *VC) mapKeyTerm(m *types.Map, key string) string {
	n, _, ok := arrayKeyBits(m)
	if !ok {
		return key
	}
	if n == 1 {
		return fmt.Sprintf("(select %s (_ bv0 64))", key)
	}
	parts := make([]string, n)
	for i := 0; i < n; i++ {
		parts[i] = fmt.Sprintf("(select %s %s)", key, bvConst(uint64(i), 64))
	}
	return vc.def(vc.mapKeySort(m), "akey", "(concat "+strings.Join(parts, " ")+")")
}

func isBasicType(t types.Type) bool {
	_, ok := t.Underlying().(*types.Basic)
	return ok
}

// The objects of a heap array have one type: the tag of the pointer type (or a
// pseudo tag for backing arrays). Frames list objects as interface values
// (tag, reference); an entry exempts a cell only of a heap array of its type,
// so that equal reference numbers of differently typed objects do not alias.
func (vc *VC) noteKeyObj(key string, ptrT types.Type, pseudo string) {
	if vc.keyTags == nil {
		vc.keyTags = map[string]string{}
	}
	if _, ok := vc.keyTags[key]; ok {
		return
	}
	if ptrT != nil {
		vc.keyTags[key] = bvConst(uint64(vc.eng.typeTag(ptrT)), 32)
	} else {
		vc.keyTags[key] = bvConst(uint64(vc.eng.pseudoTag(pseudo)), 32)
	}
}

// exemptRef / exemptIs: an exempt entry is "ref" or "ref\x01tag".
func exemptRef(e string) string {
	if i := strings.IndexByte(e, 1); i >= 0 {
		return e[:i]
	}
	return e
}

func (vc *VC) exemptIs(key, ref, e string) string {
	i := strings.IndexByte(e, 1)
	if i < 0 {
		return fmt.Sprintf("(= %s %s)", ref, e)
	}
	kt, ok := vc.keyTags[key]
	if !ok {
		return fmt.Sprintf("(= %s %s)", ref, e[:i])
	}
	if strings.HasPrefix(e[i+1:], "#") {
		// statically known tags: the entry applies to this heap array or it does not
		for _, t := range strings.Split(e[i+2:], ",") {
			if t != "" && kt == "(_ bv"+t+" 32)" {
				return fmt.Sprintf("(= %s %s)", ref, e[:i])
			}
		}
		return "false"
	}
	return fmt.Sprintf("(and (= %s %s) (= %s %s))", ref, e[:i], e[i+1:], kt)
}
