package main

import (
	"fmt"
	"go/constant"
	"go/token"
	"go/types"

	"golang.org/x/tools/go/ssa"
)

// ---------------------------------------------------------------------------
// Models of bytes.Buffer, util/decode.Decode (binary.Read of fixed-size
// fields), tflow2/convert and io. All trusted; listed in the evidence.
// ---------------------------------------------------------------------------

type bufAcc struct {
	vc         *VC
	st         *State
	ref        string
	T          types.Type
	iBuf, iOff int
}

func (eng *Engine) bufferType() types.Type {
	p := eng.prog.ImportedPackage("bytes")
	if p == nil {
		panic(unsupported("package bytes not loaded"))
	}
	return p.Type("Buffer").Type()
}

func (fr *Frame) bufAcc(st *State, v Val) *bufAcc {
	vc := fr.vc
	T := vc.eng.bufferType()
	stt := T.Underlying().(*types.Struct)
	a := &bufAcc{vc: vc, st: st, ref: vc.valTerm(v), T: T, iBuf: -1, iOff: -1}
	for i := 0; i < stt.NumFields(); i++ {
		switch stt.Field(i).Name() {
		case "buf":
			a.iBuf = i
		case "off":
			a.iOff = i
		}
	}
	vc.trust("model: bytes.Buffer (buf/off fields with the documented behaviour of NewBuffer, Len, Bytes, ReadByte, Read, Next, Write, WriteByte); invariant 0 <= off <= len(buf) assumed")
	return a
}

func (a *bufAcc) buf() string { return a.vc.readCell(a.st, a.vc.fieldKey(a.T, a.iBuf), a.ref) }
func (a *bufAcc) off() string { return a.vc.readCell(a.st, a.vc.fieldKey(a.T, a.iOff), a.ref) }
func (a *bufAcc) setBuf(v string) {
	a.vc.writeCell(a.st, a.vc.fieldKey(a.T, a.iBuf), a.ref, v)
}
func (a *bufAcc) setOff(v string) {
	a.vc.writeCell(a.st, a.vc.fieldKey(a.T, a.iOff), a.ref, v)
}
func (a *bufAcc) inv() {
	b, o := a.buf(), a.off()
	a.vc.typingFacts(a.st, types.NewSlice(types.Typ[types.Uint8]), b)
	a.vc.assume(fmt.Sprintf("(and (bvsle (_ bv0 64) %s) (bvsle %s (g_slen %s)) (bvsle (_ bv0 64) (g_slen %s)) (bvsle (g_slen %s) (g_scap %s)) (bvsle (g_scap %s) #x0000ffffffffffff) (bvsle (_ bv0 64) (g_soff %s)) (bvsle (g_soff %s) #x0000ffffffffffff))", o, o, b, b, b, b, b, b, b))
}
func (a *bufAcc) avail() string { return app("bvsub", app("g_slen", a.buf()), a.off()) }
func (a *bufAcc) byteAt(k string) string {
	arr := a.vc.readCell(a.st, a.vc.elemKey(types.Typ[types.Uint8]), app("g_sarr", a.buf()))
	return fmt.Sprintf("(select %s (bvadd (g_soff %s) (bvadd %s %s)))", arr, a.buf(), a.off(), k)
}

// frameRef: writes to an object by a model count as stores for frame purposes.
func (fr *Frame) frameRef(b *ssa.BasicBlock, ref string, st *State, reach string, pos token.Pos) {
	fr.frameCheck(b, &Loc{Kind: locStruct, Ref: ref}, st, reach, pos)
}

func (eng *Engine) eofErr() string {
	return fmt.Sprintf("(g_mkiface %s (_ bv1 64))", bvConst(uint64(eng.pseudoTag("error:io.EOF")), 32))
}

func (eng *Engine) libErr(vc *VC, st *State, what string) string {
	return fmt.Sprintf("(g_mkiface %s %s)", bvConst(uint64(eng.pseudoTag("error:"+what)), 32), vc.alloc(st))
}

func sizeOfFixed(t types.Type) (int, bool) {
	switch u := t.Underlying().(type) {
	case *types.Basic:
		if w, _, ok := intWidth(u); ok {
			return w / 8, true
		}
		if u.Kind() == types.Bool {
			return 1, true
		}
	case *types.Array:
		if n, ok := sizeOfFixed(u.Elem()); ok {
			return n * int(u.Len()), true
		}
	case *types.Struct:
		tot := 0
		for i := 0; i < u.NumFields(); i++ {
			n, ok := sizeOfFixed(u.Field(i).Type())
			if !ok {
				return 0, false
			}
			tot += n
		}
		return tot, true
	}
	return 0, false
}

// beValue builds the value of fixed-size type t from bytes at(k), k starting at base.
func (vc *VC) beValue(t types.Type, at func(k int) string, base int) string {
	switch u := t.Underlying().(type) {
	case *types.Basic:
		if u.Kind() == types.Bool {
			return sNot(sEq(at(base), bvConst(0, 8)))
		}
		w, _, _ := intWidth(u)
		n := w / 8
		if n == 1 {
			return at(base)
		}
		s := "(concat"
		for i := 0; i < n; i++ {
			s += " " + at(base+i)
		}
		return s + ")"
	case *types.Array:
		es, _ := sizeOfFixed(u.Elem())
		arr := vc.sorts().zero(t)
		for i := 0; i < int(u.Len()); i++ {
			arr = fmt.Sprintf("(store %s %s %s)", arr, bvConst(uint64(i), 64), vc.beValue(u.Elem(), at, base+i*es))
		}
		return arr
	case *types.Struct:
		fs := make([]string, u.NumFields())
		off := base
		for i := range fs {
			fs[i] = vc.beValue(u.Field(i).Type(), at, off)
			n, _ := sizeOfFixed(u.Field(i).Type())
			off += n
		}
		return vc.sorts().mkStruct(t, fs)
	}
	panic(unsupported("binary.Read of " + t.String()))
}

// literalFields recovers the pointer operands of a []interface{}{&a, &b, ...} literal.
func literalFields(v ssa.Value) ([]ssa.Value, bool) {
	sl, ok := v.(*ssa.Slice)
	if !ok {
		return nil, false
	}
	al, ok := sl.X.(*ssa.Alloc)
	if !ok {
		return nil, false
	}
	arr, ok := ptrElem(al.Type()).Underlying().(*types.Array)
	if !ok {
		return nil, false
	}
	res := make([]ssa.Value, arr.Len())
	for _, r := range *al.Referrers() {
		ia, ok := r.(*ssa.IndexAddr)
		if !ok {
			continue
		}
		c, ok := ia.Index.(*ssa.Const)
		if !ok {
			return nil, false
		}
		idx, _ := constant.Int64Val(constant.ToInt(c.Value))
		for _, r2 := range *ia.Referrers() {
			if s, ok := r2.(*ssa.Store); ok {
				mi, ok := s.Val.(*ssa.MakeInterface)
				if !ok {
					return nil, false
				}
				res[idx] = mi.X
			}
		}
	}
	for _, x := range res {
		if x == nil {
			return nil, false
		}
	}
	return res, true
}

func (eng *Engine) initBufModels() {
	reg := func(name string, apply func(fr *Frame, b *ssa.BasicBlock, f *ssa.Function, c *ssa.CallCommon, args []Val, st *State, reach string, pos token.Pos) *Val, mods func(eng *Engine, m *ModSet, c *ssa.CallCommon)) {
		if mods == nil {
			mods = noMods
		}
		eng.models[name] = &model{name: name, apply: apply, mods: mods}
	}
	bufMods := func(eng *Engine, m *ModSet, c *ssa.CallCommon) {
		T := eng.bufferType()
		stt := T.Underlying().(*types.Struct)
		for i := 0; i < stt.NumFields(); i++ {
			if n := stt.Field(i).Name(); n == "buf" || n == "off" {
				eng.addField(m, T, i)
			}
		}
	}
	bufWriteMods := func(eng *Engine, m *ModSet, c *ssa.CallCommon) {
		bufMods(eng, m, c)
		eng.addElem(m, types.Typ[types.Uint8])
	}
	u8 := types.Typ[types.Uint8]
	intT := types.Typ[types.Int]
	errT := types.Universe.Lookup("error").Type()

	reg("bytes.NewBuffer", func(fr *Frame, b *ssa.BasicBlock, f *ssa.Function, c *ssa.CallCommon, args []Val, st *State, reach string, pos token.Pos) *Val {
		vc := fr.vc
		ref := vc.alloc(st)
		pv := Val{T: c.Signature().Results().At(0).Type(), S: ref}
		vc.store(st, vc.locOf(pv), vc.sorts().zero(vc.eng.bufferType()))
		a := fr.bufAcc(st, pv)
		a.setBuf(args[0].S)
		a.setOff(bvConst(0, 64))
		return &pv
	}, nil)
	reg("(*bytes.Buffer).Len", func(fr *Frame, b *ssa.BasicBlock, f *ssa.Function, c *ssa.CallCommon, args []Val, st *State, reach string, pos token.Pos) *Val {
		a := fr.bufAcc(st, args[0])
		fr.checkNonNil(b, a.ref, reach, pos)
		a.inv()
		return &Val{T: intT, S: fr.vc.def(bvSort(64), "buflen", a.avail())}
	}, nil)
	reg("(*bytes.Buffer).Bytes", func(fr *Frame, b *ssa.BasicBlock, f *ssa.Function, c *ssa.CallCommon, args []Val, st *State, reach string, pos token.Pos) *Val {
		a := fr.bufAcc(st, args[0])
		fr.checkNonNil(b, a.ref, reach, pos)
		a.inv()
		bf, o := a.buf(), a.off()
		return &Val{T: c.Signature().Results().At(0).Type(), S: fr.vc.def("g_Slice", "bufbytes", fmt.Sprintf("(g_mkslice (g_sarr %s) (bvadd (g_soff %s) %s) (bvsub (g_slen %s) %s) (bvsub (g_scap %s) %s))", bf, bf, o, bf, o, bf, o))}
	}, nil)
	reg("(*bytes.Buffer).ReadByte", func(fr *Frame, b *ssa.BasicBlock, f *ssa.Function, c *ssa.CallCommon, args []Val, st *State, reach string, pos token.Pos) *Val {
		vc := fr.vc
		a := fr.bufAcc(st, args[0])
		fr.checkNonNil(b, a.ref, reach, pos)
		fr.frameRef(b, a.ref, st, reach, pos)
		a.inv()
		empty := vc.def("Bool", "bufempty", app("bvsle", a.avail(), bvConst(0, 64)))
		cb := vc.def(bvSort(8), "rb", a.byteAt(bvConst(0, 64)))
		o := a.off()
		bf := a.buf()
		a.setOff(sIte(empty, bvConst(0, 64), app("bvadd", o, bvConst(1, 64))))
		a.setBuf(sIte(empty, fmt.Sprintf("(g_mkslice (g_sarr %s) (g_soff %s) (_ bv0 64) (g_scap %s))", bf, bf, bf), bf))
		return &Val{T: c.Signature().Results(), Tup: []Val{{T: u8, S: sIte(empty, bvConst(0, 8), cb)}, {T: errT, S: sIte(empty, vc.eng.eofErr(), "g_niliface")}}}
	}, bufMods)
	reg("(*bytes.Buffer).Next", func(fr *Frame, b *ssa.BasicBlock, f *ssa.Function, c *ssa.CallCommon, args []Val, st *State, reach string, pos token.Pos) *Val {
		vc := fr.vc
		a := fr.bufAcc(st, args[0])
		fr.checkNonNil(b, a.ref, reach, pos)
		fr.frameRef(b, a.ref, st, reach, pos)
		a.inv()
		n := args[1].S
		fr.safe("slice", reach, app("bvsle", bvConst(0, 64), n), pos)
		m := vc.def(bvSort(64), "nextn", sIte(app("bvsgt", n, a.avail()), a.avail(), n))
		bf, o := a.buf(), a.off()
		res := vc.def("g_Slice", "next", fmt.Sprintf("(g_mkslice (g_sarr %s) (bvadd (g_soff %s) %s) %s (bvsub (g_scap %s) %s))", bf, bf, o, m, bf, o))
		a.setOff(app("bvadd", o, m))
		return &Val{T: c.Signature().Results().At(0).Type(), S: res}
	}, bufMods)
	reg("(*bytes.Buffer).Read", func(fr *Frame, b *ssa.BasicBlock, f *ssa.Function, c *ssa.CallCommon, args []Val, st *State, reach string, pos token.Pos) *Val {
		vc := fr.vc
		a := fr.bufAcc(st, args[0])
		fr.checkNonNil(b, a.ref, reach, pos)
		fr.frameRef(b, a.ref, st, reach, pos)
		a.inv()
		p := args[1].S
		av := vc.def(bvSort(64), "avail", a.avail())
		plen := app("g_slen", p)
		n := vc.def(bvSort(64), "nread", sIte(app("bvslt", plen, av), plen, av))
		empty := vc.def("Bool", "bufempty", app("bvsle", av, bvConst(0, 64)))
		// copy n bytes into p
		key := vc.elemKey(u8)
		src := vc.def("(Array (_ BitVec 64) (_ BitVec 8))", "rsrc", vc.readCell(st, key, app("g_sarr", a.buf())))
		bf, o := a.buf(), a.off()
		srcAt := func(j string) string { return fmt.Sprintf("(select %s (bvadd (g_soff %s) (bvadd %s %s)))", src, bf, o, j) }
		vc.copyInto(st, u8, p, n, srcAt)
		a.setOff(sIte(empty, bvConst(0, 64), app("bvadd", o, n)))
		a.setBuf(sIte(empty, fmt.Sprintf("(g_mkslice (g_sarr %s) (g_soff %s) (_ bv0 64) (g_scap %s))", bf, bf, bf), bf))
		errv := sIte(sAnd(empty, sNot(sEq(plen, bvConst(0, 64)))), vc.eng.eofErr(), "g_niliface")
		return &Val{T: c.Signature().Results(), Tup: []Val{{T: intT, S: n}, {T: errT, S: errv}}}
	}, bufWriteMods)
	write := func(fr *Frame, b *ssa.BasicBlock, c *ssa.CallCommon, args []Val, st *State, reach string, pos token.Pos, tlen string, srcAt func(string) string) {
		vc := fr.vc
		a := fr.bufAcc(st, args[0])
		fr.checkNonNil(b, a.ref, reach, pos)
		fr.frameRef(b, a.ref, st, reach, pos)
		a.inv()
		// Write appends to buf (the library may also compact; contents from off on are what matters)
		a.setBuf(vc.appendCore(st, u8, a.buf(), tlen, srcAt))
	}
	reg("(*bytes.Buffer).WriteByte", func(fr *Frame, b *ssa.BasicBlock, f *ssa.Function, c *ssa.CallCommon, args []Val, st *State, reach string, pos token.Pos) *Val {
		write(fr, b, c, args, st, reach, pos, bvConst(1, 64), func(j string) string { return args[1].S })
		return &Val{T: errT, S: "g_niliface"}
	}, bufWriteMods)
	reg("(*bytes.Buffer).Write", func(fr *Frame, b *ssa.BasicBlock, f *ssa.Function, c *ssa.CallCommon, args []Val, st *State, reach string, pos token.Pos) *Val {
		vc := fr.vc
		p := args[1].S
		parr := vc.def("(Array (_ BitVec 64) (_ BitVec 8))", "wsrc", vc.readCell(st, vc.elemKey(u8), app("g_sarr", p)))
		tlen := app("g_slen", p)
		if k, ok := vc.knownLen[p]; ok {
			tlen = bvConst(uint64(k), 64)
		}
		write(fr, b, c, args, st, reach, pos, tlen, func(j string) string {
			return fmt.Sprintf("(select %s (bvadd (g_soff %s) %s))", parr, p, j)
		})
		return &Val{T: c.Signature().Results(), Tup: []Val{{T: intT, S: app("g_slen", p)}, {T: errT, S: "g_niliface"}}}
	}, bufWriteMods)

	// util/decode.Decode and util/decoder.Decode: binary.Read of each field of a literal list
	decodeModel := func(fr *Frame, b *ssa.BasicBlock, f *ssa.Function, c *ssa.CallCommon, args []Val, st *State, reach string, pos token.Pos) *Val {
		vc := fr.vc
		vc.trust("model: decode.Decode/binary.Read consume exactly the fixed sizes of the listed fields (big endian) or fail")
		fields, ok := literalFields(c.Args[1])
		if !ok {
			// field list built at run time: the targets are not known statically.
			// Conservative: the whole heap (including the buffer position) is forgotten.
			fr.frameCall(b, &ModSet{all: true, set: map[string]keyInfo{}}, nil, st, reach, pos, "decode.Decode")
			vc.havocAll(st)
			vc.note("decode.Decode with a field list built at run time in " + fr.fn.String() + ": heap forgotten")
			e := vc.fresh("g_Iface", "decerr")
			vc.typingFacts(st, errT, e)
			return &Val{T: errT, S: e}
		}
		a := fr.bufAcc(st, args[0])
		fr.checkNonNil(b, a.ref, reach, pos)
		fr.frameRef(b, a.ref, st, reach, pos)
		a.inv()
		type fld struct {
			loc  *Loc
			t    types.Type
			size int
			dyn  string // dynamic size (slices)
			off  int
			direct string
		}
		var fl []fld
		total := 0
		dynTotal := ""
		for _, x := range fields {
			pv := fr.get(x)
			var t types.Type
			var l *Loc
			var direct string // slice passed by value
			if _, isPtr := x.Type().Underlying().(*types.Pointer); isPtr {
				t = ptrElem(x.Type())
				l = vc.locOf(pv)
			} else if _, isSl := x.Type().Underlying().(*types.Slice); isSl {
				t = x.Type()
				direct = pv.S
			} else {
				panic(unsupported("decode.Decode field that is not a pointer: " + x.Type().String()))
			}
			if sl, isSl := t.Underlying().(*types.Slice); isSl {
				if direct != "" {
					if w, _, ok := isIntType(sl.Elem()); !ok || w != 8 {
						panic(unsupported("decode.Decode into a slice of non-bytes"))
					}
					if dynTotal != "" {
						panic(unsupported("decode.Decode with two slice fields"))
					}
					dynTotal = app("g_slen", direct)
					fl = append(fl, fld{t: t, dyn: dynTotal, off: total, direct: direct})
					continue
				}
				if w, _, ok := isIntType(sl.Elem()); !ok || w != 8 {
					panic(unsupported("decode.Decode into a slice of non-bytes"))
				}
				if dynTotal != "" {
					panic(unsupported("decode.Decode with two slice fields"))
				}
				dynTotal = app("g_slen", vc.load(st, l))
				fl = append(fl, fld{loc: l, t: t, dyn: dynTotal, off: total})
				continue
			}
			n, ok := sizeOfFixed(t)
			if !ok {
				panic(unsupported("decode.Decode field of type " + t.String()))
			}
			if dynTotal != "" {
				panic(unsupported("decode.Decode with fixed fields after a slice field"))
			}
			fl = append(fl, fld{loc: l, t: t, size: n, off: total})
			total += n
		}
		need := bvConst(uint64(total), 64)
		if dynTotal != "" {
			need = app("bvadd", need, dynTotal)
		}
		av := vc.def(bvSort(64), "avail", a.avail())
		okc := vc.def("Bool", "decok", app("bvsge", av, need))
		o := a.off()
		bf := a.buf()
		arr := vc.def("(Array (_ BitVec 64) (_ BitVec 8))", "dsrc", vc.readCell(st, vc.elemKey(u8), app("g_sarr", bf)))
		at := func(k int) string {
			return fmt.Sprintf("(select %s (bvadd (g_soff %s) (bvadd %s %s)))", arr, bf, o, bvConst(uint64(k), 64))
		}
		for _, fd := range fl {
			if fd.dyn != "" {
				// fill the existing slice with the next len bytes
				sv := fd.direct
				if sv == "" {
					sv = vc.load(st, fd.loc)
				}
				base := bvConst(uint64(fd.off), 64)
				vc.copyInto(st, u8, sv, sIte(okc, fd.dyn, bvConst(0, 64)), func(j string) string {
					return fmt.Sprintf("(select %s (bvadd (g_soff %s) (bvadd %s (bvadd %s %s))))", arr, bf, o, base, j)
				})
				continue
			}
			val := vc.beValue(fd.t, at, fd.off)
			junk := vc.fresh(vc.sorts().sortOf(fd.t), "partial")
			fr.frameCheck(b, fd.loc, st, reach, pos)
			vc.store(st, fd.loc, sIte(okc, val, junk))
		}
		consumed := vc.fresh(bvSort(64), "partialread")
		vc.assume(fmt.Sprintf("(and (bvsle (_ bv0 64) %s) (bvsle %s %s))", consumed, consumed, av))
		a.setOff(app("bvadd", o, sIte(okc, need, consumed)))
		errv := sIte(okc, "g_niliface", vc.eng.libErr(vc, st, "decode"))
		return &Val{T: errT, S: vc.def("g_Iface", "decerr", errv)}
	}
	decMods := func(eng *Engine, m *ModSet, c *ssa.CallCommon) {
		bufMods(eng, m, c)
		eng.addElem(m, u8)
		if fields, ok := literalFields(c.Args[1]); ok {
			for _, x := range fields {
				if _, isPtr := x.Type().Underlying().(*types.Pointer); isPtr {
					eng.storeTarget(m, x, 0)
				}
			}
		} else {
			m.all = true
		}
	}
	reg(modulePath+"/util/decode.Decode", decodeModel, decMods)
	reg(modulePath+"/util/decoder.Decode", decodeModel, decMods)

	// tflow2 convert: big-endian conversions
	for _, k := range []struct {
		name string
		n    int
	}{{"Uint8Byte", 1}, {"Uint16Byte", 2}, {"Uint32Byte", 4}, {"Uint64Byte", 8}, {"Int64Byte", 8}} {
		k := k
		reg("github.com/bio-routing/tflow2/convert."+k.name, func(fr *Frame, b *ssa.BasicBlock, f *ssa.Function, c *ssa.CallCommon, args []Val, st *State, reach string, pos token.Pos) *Val {
			vc := fr.vc
			vc.trust("model: tflow2/convert big-endian integer/byte conversions")
			ref := vc.alloc(st)
			arr := "((as const (Array (_ BitVec 64) (_ BitVec 8))) #x00)"
			for i := 0; i < k.n; i++ {
				hi := (k.n-i)*8 - 1
				arr = fmt.Sprintf("(store %s %s ((_ extract %d %d) %s))", arr, bvConst(uint64(i), 64), hi, hi-7, args[0].S)
			}
			vc.writeCell(st, vc.elemKey(u8), ref, arr)
			n := bvConst(uint64(k.n), 64)
			res := vc.def("g_Slice", "bytes", fmt.Sprintf("(g_mkslice %s (_ bv0 64) %s %s)", ref, n, n))
			vc.knownLen[res] = k.n
			return &Val{T: c.Signature().Results().At(0).Type(), S: res}
		}, nil)
	}
	for _, k := range []struct {
		name string
		n    int
	}{{"Uint16b", 2}, {"Uint32b", 4}, {"Uint64b", 8}} {
		k := k
		reg("github.com/bio-routing/tflow2/convert."+k.name, func(fr *Frame, b *ssa.BasicBlock, f *ssa.Function, c *ssa.CallCommon, args []Val, st *State, reach string, pos token.Pos) *Val {
			vc := fr.vc
			vc.trust("model: tflow2/convert big-endian integer/byte conversions")
			s := args[0].S
			fr.safe("index", reach, app("bvsge", app("g_slen", s), bvConst(uint64(k.n), 64)), pos)
			arr := vc.readCell(st, vc.elemKey(u8), app("g_sarr", s))
			t := "(concat"
			for i := 0; i < k.n; i++ {
				t += fmt.Sprintf(" (select %s (bvadd (g_soff %s) %s))", arr, s, bvConst(uint64(i), 64))
			}
			return &Val{T: c.Signature().Results().At(0).Type(), S: vc.def(bvSort(k.n*8), "be", t+")")}
		}, nil)
	}
}

// copyInto models copy(d[:n], src) for n <= len(d) elements given by srcAt.
func (vc *VC) copyInto(st *State, et types.Type, d, n string, srcAt func(j string) string) {
	es := vc.sorts().sortOf(et)
	key := vc.elemKey(et)
	darr := vc.def("(Array (_ BitVec 64) "+es+")", "cdst", vc.readCell(st, key, app("g_sarr", d)))
	if k, ok := vc.knownLen[d]; ok && k <= 16 {
		// destination of small constant length: element-wise, no quantifier
		arr := darr
		for j := 0; j < k; j++ {
			jj := bvConst(uint64(j), 64)
			idx := fmt.Sprintf("(bvadd (g_soff %s) %s)", d, jj)
			arr = fmt.Sprintf("(store %s %s (ite (bvult %s %s) %s (select %s %s)))", arr, idx, jj, n, srcAt(jj), darr, idx)
		}
		vc.writeCell(st, key, app("g_sarr", d), arr)
		return
	}
	na := vc.fresh("(Array (_ BitVec 64) "+es+")", "copied")
	vc.assume(fmt.Sprintf("(forall ((g_j (_ BitVec 64))) (! (= (select %s g_j) (ite (and (bvule (g_soff %s) g_j) (bvult g_j (bvadd (g_soff %s) %s))) %s (select %s g_j))) :pattern ((select %s g_j))))",
		na, d, d, n, srcAt(fmt.Sprintf("(bvsub g_j (g_soff %s))", d)), darr, na))
	alt := st.clone()
	vc.writeCell(alt, key, app("g_sarr", d), na)
	mg := vc.mergeStates([]string{app("bvsgt", n, bvConst(0, 64))}, []*State{alt, st})
	*st = *mg
}
