package main

import (
	"context"
	"encoding/json"
	"fmt"
	"go/types"
	"math/big"
	"os"
	"os/exec"
	"path/filepath"
	"sort"
	"strings"
	"time"
)

// ---------------------------------------------------------------------------
// S-expressions (solver values)
// ---------------------------------------------------------------------------

type sexp struct {
	atom string
	list []*sexp
}

func parseSexp(s string) *sexp {
	pos := 0
	var parse func() *sexp
	skip := func() {
		for pos < len(s) && (s[pos] == ' ' || s[pos] == '\n' || s[pos] == '\t' || s[pos] == '\r') {
			pos++
		}
	}
	parse = func() *sexp {
		skip()
		if pos >= len(s) {
			return nil
		}
		if s[pos] == '(' {
			pos++
			n := &sexp{list: []*sexp{}}
			for {
				skip()
				if pos >= len(s) {
					return n
				}
				if s[pos] == ')' {
					pos++
					return n
				}
				c := parse()
				if c == nil {
					return n
				}
				n.list = append(n.list, c)
			}
		}
		st := pos
		if s[pos] == '"' {
			pos++
			for pos < len(s) && s[pos] != '"' {
				pos++
			}
			pos++
			return &sexp{atom: s[st:min(pos, len(s))]}
		}
		if s[pos] == '|' {
			pos++
			for pos < len(s) && s[pos] != '|' {
				pos++
			}
			pos++
			return &sexp{atom: s[st:min(pos, len(s))]}
		}
		for pos < len(s) && s[pos] != ' ' && s[pos] != ')' && s[pos] != '(' && s[pos] != '\n' && s[pos] != '\t' {
			pos++
		}
		return &sexp{atom: s[st:pos]}
	}
	return parse()
}

func (x *sexp) String() string {
	if x == nil {
		return ""
	}
	if x.list == nil {
		return x.atom
	}
	var ps []string
	for _, c := range x.list {
		ps = append(ps, c.String())
	}
	return "(" + strings.Join(ps, " ") + ")"
}

// bvValue parses #x.., #b.. and (_ bvN w).
func bvValue(x *sexp) (*big.Int, bool) {
	if x == nil {
		return nil, false
	}
	if x.list == nil {
		a := x.atom
		if strings.HasPrefix(a, "#x") {
			v, ok := new(big.Int).SetString(a[2:], 16)
			return v, ok
		}
		if strings.HasPrefix(a, "#b") {
			v, ok := new(big.Int).SetString(a[2:], 2)
			return v, ok
		}
		return nil, false
	}
	if len(x.list) == 3 && x.list[0].atom == "_" && strings.HasPrefix(x.list[1].atom, "bv") {
		v, ok := new(big.Int).SetString(x.list[1].atom[2:], 10)
		return v, ok
	}
	return nil, false
}

// ---------------------------------------------------------------------------
// Building Go inputs from a model
// ---------------------------------------------------------------------------

type replayBuilder struct {
	eng     *Engine
	vc      *VC
	pkg     *types.Package
	vals    map[string]string // queried term -> value text
	pending map[string]bool
	objs    map[string]string // "typekey@ref" -> variable name
	decls   []string          // object declarations
	inits   []string          // object initialisation statements
	imports map[string]string // path -> local name
	notes   []string
	nobj    int
	bad     string // reason the inputs cannot be constructed
	curTerm string // SMT term of the value being built (when known)
	softs   map[string]bool
	retry   bool
	noSoft  bool
	needSet bool
}

func (rb *replayBuilder) qual(p *types.Package) string {
	if p == rb.pkg {
		return ""
	}
	name := p.Name()
	if ex, ok := rb.imports[p.Path()]; ok {
		return ex
	}
	// avoid clashes
	for _, n := range rb.imports {
		if n == name {
			name = name + fmt.Sprint(len(rb.imports))
		}
	}
	// a package-level name of the package under test would clash with the file's import
	if rb.pkg != nil && rb.pkg.Scope().Lookup(name) != nil {
		name = name + "_vr"
	}
	rb.imports[p.Path()] = name
	return name
}

func (rb *replayBuilder) typeStr(t types.Type) string { return types.TypeString(t, rb.qual) }

func (rb *replayBuilder) need(term string) (string, bool) {
	if v, ok := rb.vals[term]; ok {
		return v, true
	}
	rb.pending[term] = true
	return "", false
}

func (rb *replayBuilder) initHeap(key string) string {
	return rb.vc.heapVer(&State{heap: map[string]string{}, epoch: 0}, key)
}

func refConst(v *big.Int) string { return fmt.Sprintf("(_ bv%s 64)", v.String()) }

// value builds a Go expression of type t from the solver value x.
func (rb *replayBuilder) value(t types.Type, x *sexp, depth int) string {
	zero := func() string { return "*new(" + rb.typeStr(t) + ")" }
	if x == nil {
		return zero()
	}
	switch u := t.Underlying().(type) {
	case *types.Basic:
		switch {
		case u.Info()&types.IsBoolean != 0:
			return rb.typeStr(t) + "(" + x.atom + ")"
		case u.Info()&types.IsInteger != 0:
			w, signed, _ := intWidth(u)
			v, ok := bvValue(x)
			if !ok {
				return zero()
			}
			if signed && v.Bit(w-1) == 1 {
				v = new(big.Int).Sub(v, new(big.Int).Lsh(big.NewInt(1), uint(w)))
			}
			return rb.typeStr(t) + "(" + v.String() + ")"
		case u.Info()&types.IsString != 0:
			// strings are uninterpreted: use a string of the model's length
			if rb.curTerm == "" || strings.Contains(x.String(), "!") && rb.curTerm == "" {
				return rb.typeStr(t) + "(\"abc\")"
			}
			ln, ok := rb.need(app("g_strlen", rb.curTerm))
			if !ok {
				return zero()
			}
			n, _ := bvValue(parseSexp(ln))
			if n == nil || n.Cmp(big.NewInt(256)) > 0 {
				n = big.NewInt(3)
			}
			return rb.typeStr(t) + "(" + fmt.Sprintf("%q", strings.Repeat("a", int(n.Int64()))) + ")"
		case u.Info()&types.IsFloat != 0:
			v, ok := bvValue(x)
			if !ok {
				return zero()
			}
			rb.imports["math"] = "math"
			return rb.typeStr(t) + "(math.Float64frombits(" + v.String() + "))"
		}
		return zero()
	case *types.Struct:
		if x.list == nil { // constructor without fields
			return rb.typeStr(t) + "{}"
		}
		if len(x.list) != u.NumFields()+1 {
			return zero()
		}
		foreign := false
		for i := 0; i < u.NumFields(); i++ {
			if f := u.Field(i); !f.Exported() && f.Pkg() != rb.pkg {
				foreign = true
			}
		}
		if foreign {
			// fields of other packages are set through reflection on a temporary object
			rb.nobj++
			name := fmt.Sprintf("tmp%d", rb.nobj)
			rb.decls = append(rb.decls, fmt.Sprintf("%s := new(%s)", name, rb.typeStr(t)))
			for i := 0; i < u.NumFields(); i++ {
				f := u.Field(i)
				saved := rb.curTerm
				if saved != "" {
					rb.curTerm = rb.vc.sorts().selField(t, i, saved)
				}
				val := rb.value(f.Type(), x.list[i+1], depth)
				rb.curTerm = saved
				rb.setField(name, f, val)
			}
			return "*" + name
		}
		var parts []string
		for i := 0; i < u.NumFields(); i++ {
			f := u.Field(i)
			saved := rb.curTerm
			if saved != "" {
				rb.curTerm = rb.vc.sorts().selField(t, i, saved)
			}
			parts = append(parts, f.Name()+": "+rb.value(f.Type(), x.list[i+1], depth))
			rb.curTerm = saved
		}
		return rb.typeStr(t) + "{" + strings.Join(parts, ", ") + "}"
	case *types.Pointer:
		v, ok := bvValue(x)
		if !ok || v.Sign() == 0 {
			return "(" + rb.typeStr(t) + ")(nil)"
		}
		return rb.object(u.Elem(), v, depth)
	case *types.Slice:
		if len(x.list) != 5 {
			return zero()
		}
		arr, _ := bvValue(x.list[1])
		off, _ := bvValue(x.list[2])
		ln, _ := bvValue(x.list[3])
		cp, _ := bvValue(x.list[4])
		if arr == nil || ln == nil || off == nil || arr.Sign() == 0 {
			return "(" + rb.typeStr(t) + ")(nil)"
		}
		if ln.Cmp(big.NewInt(64)) > 0 && rb.curTerm != "" && !rb.noSoft {
			// ask for a model with a short slice here
			rb.softs[fmt.Sprintf("(bvule (g_slen %s) (_ bv8 64))", rb.curTerm)] = true
			rb.retry = true
		}
		if ln.Cmp(big.NewInt(1<<16)) > 0 {
			rb.bad = "model needs a slice of length " + ln.String()
			return zero()
		}
		rb.curTerm = ""
		n := int(ln.Int64())
		var elems []string
		if depth > 4 {
			return "make(" + rb.typeStr(t) + ", " + fmt.Sprint(n) + ")"
		}
		h := rb.initHeap(rb.vc.elemKey(u.Elem()))
		allZero := true
		for i := 0; i < n; i++ {
			idx := new(big.Int).Add(off, big.NewInt(int64(i)))
			term := fmt.Sprintf("(select (select %s %s) %s)", h, refConst(arr), refConst(idx))
			ev, ok := rb.need(term)
			if !ok {
				elems = append(elems, "")
				continue
			}
			allZero = false
			rb.curTerm = term
			elems = append(elems, rb.value(u.Elem(), parseSexp(ev), depth+1))
			rb.curTerm = ""
		}
		_ = allZero
		capExtra := ""
		if cp != nil && cp.Cmp(ln) > 0 && cp.Cmp(big.NewInt(1<<16)) < 0 {
			capExtra = fmt.Sprintf("[:%d:%d]", n, cp.Int64())
			pad := int(cp.Int64()) - n
			for i := 0; i < pad; i++ {
				elems = append(elems, "*new("+rb.typeStr(u.Elem())+")")
			}
		}
		for i := range elems {
			if elems[i] == "" {
				elems[i] = "*new(" + rb.typeStr(u.Elem()) + ")"
			}
		}
		return rb.typeStr(t) + "{" + strings.Join(elems, ", ") + "}" + capExtra
	case *types.Array:
		// array values inside structs: read const/store chains
		return rb.arrayValue(t, u, x, depth)
	case *types.Map:
		v, ok := bvValue(x)
		if !ok || v.Sign() == 0 {
			return "(" + rb.typeStr(t) + ")(nil)"
		}
		rb.note("map contents are not reconstructed (empty map used)")
		return "make(" + rb.typeStr(t) + ")"
	case *types.Interface:
		if len(x.list) != 3 {
			return zero()
		}
		tag, _ := bvValue(x.list[1])
		ref, _ := bvValue(x.list[2])
		if tag == nil || tag.Sign() == 0 {
			return "(" + rb.typeStr(t) + ")(nil)"
		}
		ti := int(tag.Int64())
		if ti < 1 || ti > len(rb.eng.tagTypes) {
			rb.bad = "model uses an unknown dynamic type tag"
			return zero()
		}
		dt := rb.eng.tagTypes[ti-1]
		if b, ok := dt.(*types.Basic); ok && b.Kind() == types.Invalid {
			rb.imports["errors"] = "errors"
			return rb.typeStr(t) + "(errors.New(\"replay\"))"
		}
		if !types.AssignableTo(dt, t) {
			// the solver's dynamic type is not constrained to implement the static
			// one where nothing depends on it: a nil interface stands in
			rb.note("model gives an interface value a dynamic type that does not implement it; nil used")
			return "(" + rb.typeStr(t) + ")(nil)"
		}
		if isPointerish(dt) {
			return rb.typeStr(t) + "(" + rb.value(dt, x.list[2], depth) + ")"
		}
		term := fmt.Sprintf("(select %s %s)", rb.initHeap(rb.vc.boxKey(dt)), refConst(ref))
		ev, ok := rb.need(term)
		if !ok {
			return zero()
		}
		return rb.typeStr(t) + "(" + rb.value(dt, parseSexp(ev), depth+1) + ")"
	}
	return zero()
}

func (rb *replayBuilder) arrayValue(t types.Type, u *types.Array, x *sexp, depth int) string {
	vals := map[int64]string{}
	def := ""
	cur := x
	for cur != nil && cur.list != nil {
		if len(cur.list) == 4 && cur.list[0].atom == "store" {
			idx, ok := bvValue(cur.list[2])
			if ok {
				if _, seen := vals[idx.Int64()]; !seen {
					vals[idx.Int64()] = rb.value(u.Elem(), cur.list[3], depth+1)
				}
			}
			cur = cur.list[1]
			continue
		}
		if len(cur.list) == 2 && cur.list[0].list != nil && len(cur.list[0].list) > 0 && cur.list[0].list[0].atom == "as" {
			def = rb.value(u.Elem(), cur.list[1], depth+1)
		}
		break
	}
	var parts []string
	for i := int64(0); i < u.Len(); i++ {
		if v, ok := vals[i]; ok {
			parts = append(parts, fmt.Sprintf("%d: %s", i, v))
		} else if def != "" {
			parts = append(parts, fmt.Sprintf("%d: %s", i, def))
		}
	}
	return rb.typeStr(t) + "{" + strings.Join(parts, ", ") + "}"
}

// setField assigns obj.f = val; fields of other packages that are not exported
// are written through reflect/unsafe.
func (rb *replayBuilder) setField(obj string, f *types.Var, val string) {
	if f.Exported() || f.Pkg() == rb.pkg {
		rb.inits = append(rb.inits, fmt.Sprintf("%s.%s = %s", obj, f.Name(), val))
		return
	}
	if !nameable(f.Type(), rb.pkg) {
		rb.note("unexported field " + f.Name() + " of unexported type left at its zero value")
		return
	}
	rb.needSet = true
	rb.inits = append(rb.inits, fmt.Sprintf("verifSet(%s, %q, %s)", obj, f.Name(), val))
}

func nameable(t types.Type, pkg *types.Package) bool {
	switch u := t.(type) {
	case *types.Named:
		if u.Obj().Pkg() != nil && u.Obj().Pkg() != pkg && !u.Obj().Exported() {
			return false
		}
		return true
	case *types.Pointer:
		return nameable(u.Elem(), pkg)
	case *types.Slice:
		return nameable(u.Elem(), pkg)
	case *types.Array:
		return nameable(u.Elem(), pkg)
	case *types.Map:
		return nameable(u.Key(), pkg) && nameable(u.Elem(), pkg)
	case *types.Struct:
		return false
	}
	return true
}

func (rb *replayBuilder) note(s string) {
	for _, n := range rb.notes {
		if n == s {
			return
		}
	}
	rb.notes = append(rb.notes, s)
}

// object returns the variable holding the heap object of type et at ref.
func (rb *replayBuilder) object(et types.Type, ref *big.Int, depth int) string {
	key := typeKey(et) + "@" + ref.String()
	if v, ok := rb.objs[key]; ok {
		return v
	}
	rb.nobj++
	name := fmt.Sprintf("obj%d", rb.nobj)
	rb.objs[key] = name
	rb.decls = append(rb.decls, fmt.Sprintf("%s := new(%s)", name, rb.typeStr(et)))
	if depth > 4 {
		return name
	}
	if st, ok := et.Underlying().(*types.Struct); ok {
		for i := 0; i < st.NumFields(); i++ {
			f := st.Field(i)
			term := fmt.Sprintf("(select %s %s)", rb.initHeap(rb.vc.fieldKey(et, i)), refConst(ref))
			ev, ok := rb.need(term)
			if !ok {
				continue
			}
			if f.Name() == "_" {
				continue
			}
			if _, isSig := f.Type().Underlying().(*types.Signature); isSig {
				continue
			}
			rb.curTerm = term
			val := rb.value(f.Type(), parseSexp(ev), depth+1)
			rb.curTerm = ""
			rb.setField(name, f, val)
		}
		return name
	}
	term := fmt.Sprintf("(select %s %s)", rb.initHeap(rb.vc.boxKeyFor(et)), refConst(ref))
	if ev, ok := rb.need(term); ok {
		rb.curTerm = term
		rb.inits = append(rb.inits, fmt.Sprintf("*%s = %s", name, rb.value(et, parseSexp(ev), depth+1)))
		rb.curTerm = ""
	}
	return name
}

// ---------------------------------------------------------------------------
// Replay driver
// ---------------------------------------------------------------------------

func (vc *VC) observationTerms() []string {
	var ts []string
	for _, in := range vc.inputs {
		ts = append(ts, in.Term)
	}
	return ts
}

// queryModel asks the solver for the values of terms in a model of the
// obligation's negation that agrees with the values already fixed.
func queryModel(ob *Obligation, fixed map[string]string, softs map[string]bool, terms []string, file string, timeoutS int) (map[string]string, bool) {
	var b strings.Builder
	b.WriteString("(set-option :produce-models true)\n")
	script := ob.vc.script(ob, false)
	script = strings.TrimSuffix(strings.TrimSpace(script), "(check-sat)")
	b.WriteString(script)
	var fk []string
	for k := range fixed {
		fk = append(fk, k)
	}
	sort.Strings(fk)
	for _, k := range fk {
		v := fixed[k]
		if strings.Contains(v, "!") || strings.Contains(v, "lambda") || strings.Contains(v, "as-array") || strings.Contains(v, "as const") {
			continue // values of uninterpreted sorts and arrays cannot be written back
		}
		b.WriteString(fmt.Sprintf("(assert (= %s %s))\n", k, v))
	}
	var sk []string
	for k := range softs {
		sk = append(sk, k)
	}
	sort.Strings(sk)
	for _, k := range sk {
		b.WriteString("(assert " + k + ")\n")
	}
	b.WriteString("(check-sat)\n")
	for _, t := range terms {
		b.WriteString("(get-value (" + t + "))\n")
	}
	os.WriteFile(file, []byte(b.String()), 0o644)
	for _, sp := range []solverSpec{solvers[0]} {
		r := runSolver(context.Background(), sp, file, timeoutS)
		if r.answer != "sat" {
			continue
		}
		m := parseValues(r.out, terms)
		if len(m) == len(terms) {
			return m, true
		}
	}
	return nil, false
}

func replayObligation(eng *Engine, o runOpts, ob *Obligation, path, work string) bool {
	if ob.Status != "violated" || ob.ExpectSat {
		writeReplayFile(o, ob, path, "no-model", "")
		return false
	}
	vc := ob.vc
	ct := eng.byKey[vc.rootKey]
	if ct == nil || len(vc.inputs) == 0 && !ct.IsLemma {
		writeReplayFile(o, ob, path, "no-inputs", "")
		return false
	}
	pkgPath := ct.PkgPath
	sp := eng.pkgs[pkgPath]
	if sp == nil {
		writeReplayFile(o, ob, path, "no-package", "")
		return false
	}
	rb := &replayBuilder{eng: eng, vc: vc, pkg: sp.Pkg, vals: map[string]string{}, pending: map[string]bool{}, objs: map[string]string{}, imports: map[string]string{}, softs: map[string]bool{}}
	for _, in := range vc.inputs {
		rb.pending[in.Term] = true
	}
	mfile := filepath.Join(work, sanitize(ob.Name)+".replay.smt2")
	var argExprs []string
	for round := 0; round < 40; round++ {
		if rb.retry {
			// new preferences: forget the model read so far
			rb.retry = false
			rb.vals = map[string]string{}
			rb.bad = ""
			for _, in := range vc.inputs {
				rb.pending[in.Term] = true
			}
		}
		var terms []string
		for t := range rb.pending {
			terms = append(terms, t)
		}
		sort.Strings(terms)
		if len(terms) > 0 {
			fixed := map[string]string{}
			for k, v := range rb.vals {
				fixed[k] = v
			}
			m, ok := queryModel(ob, fixed, rb.softs, terms, mfile, 20)
			if !ok && len(rb.softs) > 0 {
				rb.softs = map[string]bool{}
				rb.noSoft = true
				rb.vals = map[string]string{}
				for _, in := range vc.inputs {
					rb.pending[in.Term] = true
				}
				continue
			}
			if !ok {
				writeReplayFile(o, ob, path, "model-query-failed", "")
				return false
			}
			for k, v := range m {
				rb.vals[k] = v
			}
		}
		rb.pending = map[string]bool{}
		rb.objs = map[string]string{}
		rb.imports = map[string]string{}
		rb.needSet = false
		rb.decls, rb.inits, rb.nobj = nil, nil, 0
		argExprs = nil
		for _, in := range vc.inputs {
			rb.curTerm = in.Term
			argExprs = append(argExprs, rb.value(in.T, parseSexp(rb.vals[in.Term]), 0))
			rb.curTerm = ""
		}
		if len(rb.pending) == 0 && !rb.retry {
			break
		}
	}
	ob.Model = map[string]string{}
	for _, in := range vc.inputs {
		ob.Model[in.Name] = rb.vals[in.Term]
	}
	if rb.bad != "" {
		writeReplayFile(o, ob, path, "inputs-not-constructible", rb.bad)
		return false
	}
	if ob.Kind == "lock" && !(strings.Contains(ob.Name, ":balance:") || strings.Contains(ob.Name, ":relock#")) {
		// lock order and guarded-field obligations speak about what another thread
		// could do meanwhile: one sequential run of the function observes nothing
		writeReplayFile(o, ob, path, "not-replayable", "NOT REPLAYABLE: a lock-order or guarded-field obligation is about interleavings with other threads; a single run of the function cannot exhibit it")
		return false
	}
	src := rb.testSource(ct, ob, argExprs)
	if ob.Kind == "lock" {
		src = lockReplaySource(src)
	}
	confirmed, out := runReplay(eng, o, ct, src, work, sanitize(ob.Name))
	status := "not-confirmed"
	if confirmed {
		status = "REPLAY-CONFIRMED"
	}
	writeReplayFile(o, ob, path, status, out)
	// keep the generated test next to the replay file
	os.WriteFile(strings.TrimSuffix(path, ".json")+"_test.go.txt", []byte(src), 0o644)
	return confirmed
}

func (rb *replayBuilder) testSource(ct *Contract, ob *Obligation, argExprs []string) string {
	var b strings.Builder
	var body strings.Builder
	for _, d := range rb.decls {
		body.WriteString("\t" + d + "\n")
	}
	for _, d := range rb.inits {
		body.WriteString("\t" + d + "\n")
	}
	var names []string
	for i, in := range rb.vc.inputs {
		n := fmt.Sprintf("a%d", i)
		names = append(names, n)
		fmt.Fprintf(&body, "\tvar %s %s = %s\n", n, rb.typeStr(in.T), argExprs[i])
	}
	args := strings.Join(names, ", ")
	argsP := args // the function's own parameters (the logical variables follow them)
	np := len(names)
	if !ct.IsLemma && ct.Fn != nil && len(ct.Fn.Params) < len(names) {
		np = len(ct.Fn.Params)
		argsP = strings.Join(names[:np], ", ")
	}
	if ct.IsLemma {
		for k, cl := range ct.Requires {
			fmt.Fprintf(&body, "\tfmt.Printf(\"VERIF-REPLAY pre%d=%%v\\n\", %s(%s))\n", k, cl.FnName, args)
		}
		body.WriteString("\tfunc() {\n\t\tdefer func() {\n\t\t\tif r := recover(); r != nil {\n\t\t\t\tfmt.Printf(\"VERIF-REPLAY panic=%v\\n\", r)\n\t\t\t}\n\t\t}()\n")
		for k, cl := range ct.Ensures {
			fmt.Fprintf(&body, "\t\tfmt.Printf(\"VERIF-REPLAY post%d=%%v\\n\", %s(%s))\n", k, cl.FnName, args)
		}
		body.WriteString("\t}()\n")
	} else {
		for k, cl := range ct.Requires {
			fmt.Fprintf(&body, "\tfmt.Printf(\"VERIF-REPLAY pre%d=%%v\\n\", %s(%s))\n", k, cl.FnName, argsP)
		}
		var oldNames []string
		for j, ob := range ct.Olds {
			n := fmt.Sprintf("old%d", j)
			oldNames = append(oldNames, n)
			fmt.Fprintf(&body, "\t%s := %s(%s)\n", n, ob.Clause.FnName, args)
		}
		fn := ct.Fn
		nres := fn.Signature.Results().Len()
		var resNames []string
		for i := 0; i < nres; i++ {
			n := fmt.Sprintf("r%d", i)
			resNames = append(resNames, n)
			fmt.Fprintf(&body, "\tvar %s %s\n", n, rb.typeStr(fn.Signature.Results().At(i).Type()))
		}
		call := ""
		if fn.Signature.Recv() != nil {
			call = fmt.Sprintf("%s.%s(%s)", names[0], fn.Name(), strings.Join(names[1:np], ", "))
		} else {
			call = fmt.Sprintf("%s(%s)", fn.Name(), strings.Join(names[:np], ", "))
		}
		if fn.Signature.Variadic() {
			call = strings.TrimSuffix(call, ")") + "...)"
		}
		body.WriteString("\tpanicked := false\n\tfunc() {\n\t\tdefer func() {\n\t\t\tif r := recover(); r != nil {\n\t\t\t\tpanicked = true\n\t\t\t\tfmt.Printf(\"VERIF-REPLAY panic=%v\\n\", r)\n\t\t\t}\n\t\t}()\n")
		if nres > 0 {
			fmt.Fprintf(&body, "\t\t%s = %s\n", strings.Join(resNames, ", "), call)
		} else {
			fmt.Fprintf(&body, "\t\t%s\n", call)
		}
		body.WriteString("\t}()\n\tif !panicked {\n\t\tfunc() {\n\t\t\tdefer func() {\n\t\t\t\tif r := recover(); r != nil {\n\t\t\t\t\tfmt.Printf(\"VERIF-REPLAY clause-panic=%v\\n\", r)\n\t\t\t\t}\n\t\t\t}()\n")
		all := append(append(append([]string{}, names...), resNames...), oldNames...)
		for k, cl := range ct.Ensures {
			fmt.Fprintf(&body, "\t\t\tfmt.Printf(\"VERIF-REPLAY post%d=%%v\\n\", %s(%s))\n", k, cl.FnName, strings.Join(all, ", "))
		}
		body.WriteString("\t\t}()\n\t}\n")
		for _, n := range resNames {
			fmt.Fprintf(&body, "\t_ = %s\n", n)
		}
	}
	if rb.needSet {
		rb.imports["reflect"] = "reflect"
		rb.imports["unsafe"] = "unsafe"
	}
	b.WriteString("package " + rb.pkg.Name() + "\n\nimport (\n\t\"fmt\"\n\t\"testing\"\n")
	var ips []string
	for p := range rb.imports {
		ips = append(ips, p)
	}
	sort.Strings(ips)
	for _, p := range ips {
		if p == "fmt" || p == "testing" {
			continue
		}
		fmt.Fprintf(&b, "\t%s %q\n", rb.imports[p], p)
	}
	b.WriteString(")\n\n// Generated by govc: replay of a solver counterexample for obligation\n// " + ob.Name + "\nfunc TestVerifReplay(t *testing.T) {\n")
	b.WriteString(body.String())
	b.WriteString("\tfmt.Printf(\"VERIF-REPLAY ghost=%v\\n\", verif_ghostUsed)\n")
	b.WriteString("}\n")
	if rb.needSet {
		b.WriteString("\nfunc verifSet(ptr interface{}, field string, val interface{}) {\n\tv := reflect.ValueOf(ptr).Elem().FieldByName(field)\n\treflect.NewAt(v.Type(), unsafe.Pointer(v.UnsafeAddr())).Elem().Set(reflect.ValueOf(val))\n}\n")
	}
	return b.String()
}

// runReplay executes the generated in-package test through a build overlay.
func runReplay(eng *Engine, o runOpts, ct *Contract, src string, work, tag string) (bool, string) {
	dir := filepath.Join(o.repo, ct.PkgDir)
	testFile := filepath.Join(work, tag+"_replay_test.go")
	os.WriteFile(testFile, []byte(src), 0o644)
	ov := map[string]map[string]string{"Replace": {}}
	ov["Replace"][filepath.Join(dir, "zz_verif_replay_test.go")] = testFile
	for d, s := range eng.elabSrc {
		f := filepath.Join(work, "elab_"+sanitize(d)+".go")
		os.WriteFile(f, []byte(s), 0o644)
		ov["Replace"][filepath.Join(o.repo, d, elabFile)] = f
	}
	for p, alt := range eng.extraOverlay {
		ov["Replace"][p] = alt
	}
	ovFile := filepath.Join(work, tag+"_overlay.json")
	data, _ := json.Marshal(ov)
	os.WriteFile(ovFile, data, 0o644)
	ctx, cancel := context.WithTimeout(context.Background(), 180*time.Second)
	defer cancel()
	cmd := exec.CommandContext(ctx, "go", "test", "-tags", "verif", "-overlay", ovFile, "-vet=off", "-timeout", "60s", "-count=1", "-run", "^TestVerifReplay$", "-v", "./"+ct.PkgDir)
	cmd.Dir = o.repo
	cmd.Env = append(os.Environ(), "GOFLAGS=-mod=mod", "GOPROXY=off", "GOSUMDB=off", "GOTOOLCHAIN=local")
	outB, _ := cmd.CombinedOutput()
	out := string(outB)
	preOK := true
	failed := false
	ghost := false
	for _, l := range strings.Split(out, "\n") {
		l = strings.TrimSpace(l)
		if !strings.HasPrefix(l, "VERIF-REPLAY ") {
			continue
		}
		kv := strings.TrimPrefix(l, "VERIF-REPLAY ")
		switch {
		case strings.HasPrefix(kv, "pre") && strings.HasSuffix(kv, "=false"):
			preOK = false
		case strings.HasPrefix(kv, "post") && strings.HasSuffix(kv, "=false"):
			failed = true
		case strings.HasPrefix(kv, "panic="):
			failed = true
			if strings.Contains(src, "verifLockProbe") {
				failed = false // a panic on the way decides nothing about the locks
				preOK = false
			}
		case kv == "lock=held" || kv == "lock=blocked":
			failed = true
		case kv == "ghost=true":
			// a clause evaluated an uninterpreted ghost function or an unbounded
			// quantifier, which have no run-time observer: the run decides nothing
			ghost = true
		}
	}
	if ghost {
		return false, "NOT REPLAYABLE: the contract uses uninterpreted ghost functions or unbounded quantifiers (verif_uf_*, verif_all), which have no run-time observer\n" + truncate2(out, 6000)
	}
	return preOK && failed, truncate2(out, 6000)
}

func truncate2(s string, n int) string {
	if len(s) > n {
		return s[:n] + "\n...[truncated]"
	}
	return s
}

// lockReplaySource turns the generated replay test into a lock probe: the call
// runs under a watchdog (a call that never returns has blocked on a lock it
// holds), and afterwards every mutex reachable from the arguments must be free.
func lockReplaySource(src string) string {
	i := strings.Index(src, "\tpanicked := false\n\tfunc() {\n")
	j := strings.Index(src, "\tif !panicked {")
	if i < 0 || j < 0 {
		return src
	}
	call := src[i+len("\tpanicked := false\n"):j] // func() { defer recover; call }()
	k := strings.Index(src[j:], "\tfmt.Printf(\"VERIF-REPLAY ghost=")
	if k < 0 {
		return src
	}
	probe := "\tpanicked := false\n\tdone := make(chan struct{})\n\tgo func() {\n\t\tdefer close(done)\n" + call + "\t}()\n" +
		"\tselect {\n\tcase <-done:\n\t\tif !panicked {\n\t\t\tfor _, a := range []interface{}{ARGS} {\n\t\t\t\tif verifLockProbe(reflect.ValueOf(a), 0) {\n\t\t\t\t\tfmt.Println(\"VERIF-REPLAY lock=held\")\n\t\t\t\t}\n\t\t\t}\n\t\t}\n" +
		"\tcase <-time.After(3 * time.Second):\n\t\tfmt.Println(\"VERIF-REPLAY lock=blocked\")\n\t}\n"
	// the arguments are the variables a0..an declared before the call
	var args []string
	for n := 0; ; n++ {
		if !strings.Contains(src[:i], fmt.Sprintf("\tvar a%d ", n)) {
			break
		}
		args = append(args, fmt.Sprintf("a%d", n))
	}
	probe = strings.Replace(probe, "ARGS", strings.Join(args, ", "), 1)
	out := src[:i] + probe + src[j+k:]
	for _, imp := range []string{"reflect", "sync", "time", "unsafe"} {
		if !strings.Contains(out, "\t"+imp+" \""+imp+"\"\n") && !strings.Contains(out, "\t\""+imp+"\"\n") {
			out = strings.Replace(out, "import (\n", "import (\n\t\""+imp+"\"\n", 1)
		}
	}
	out += `
// verifLockProbe reports whether a mutex reachable from v (through pointers and
// struct fields, a few levels deep) is held.
func verifLockProbe(v reflect.Value, depth int) bool {
	if depth > 4 || !v.IsValid() {
		return false
	}
	switch v.Kind() {
	case reflect.Ptr, reflect.Interface:
		if v.IsNil() {
			return false
		}
		return verifLockProbe(v.Elem(), depth+1)
	case reflect.Struct:
		if v.CanAddr() {
			p := unsafe.Pointer(v.UnsafeAddr())
			switch v.Type() {
			case reflect.TypeOf(sync.Mutex{}):
				m := (*sync.Mutex)(p)
				if !m.TryLock() {
					return true
				}
				m.Unlock()
				return false
			case reflect.TypeOf(sync.RWMutex{}):
				m := (*sync.RWMutex)(p)
				if !m.TryLock() {
					return true
				}
				m.Unlock()
				return false
			}
		}
		for i := 0; i < v.NumField(); i++ {
			if verifLockProbe(v.Field(i), depth+1) {
				return true
			}
		}
	}
	return false
}
`
	return out
}
