package main

import (
	"fmt"
	"go/token"
	"go/types"
	"regexp"
	"sort"
	"strings"

	"golang.org/x/tools/go/ssa"
)

// ---------------------------------------------------------------------------
// VC: one verification-condition context (one function under contract, or one
// lemma). It accumulates declarations, definitions and assumptions in order;
// each obligation remembers how much of that prefix it may use.
// ---------------------------------------------------------------------------

type Obligation struct {
	Name      string
	Kind      string // post, safe, inv-init, inv-pres, dec, call-pre, frame, lemma, pre-sat, cover, ...
	Fn        string // function under contract the obligation belongs to
	Goal      string // formula that must be valid (unsat of negation) — or satisfiable when ExpectSat
	UpTo      int    // number of vc.lines visible
	Pos       token.Position
	ExpectSat bool
	Clause    string // contract text, if any
	ClauseFn  string // name of the elaborated Go function implementing the clause (for replay)
	Props     []string
	Detail    string
	Weak      bool // model search with quantified library facts dropped
	vc        *VC

	// filled by the solver stage
	Status  string // discharged | violated | unknown | error
	Solver  string
	TimeS   float64
	Model   map[string]string
	Output  string
	Queries []string
}

type verInfo struct {
	kind   int // 0 init/havoc (opaque), 1 store, 2 ite, 3 framed havoc
	parent string
	other  string   // second branch for ite
	limit  string   // framed havoc: refs below limit and not exempt are unchanged
	exempt []string // refs exempt from the frame
	framed bool     // a framed havoc exists at or below this version
	cond     string // ite: condition selecting parent
	storeRef string // store: reference written
	storeVal string // store: value written
	key      string // framed havoc: the heap key of this version
	bound    string // havoc: allocation counter after the havoc (every reference in the new version is below it)
}

type VC struct {
	eng      *Engine
	root     *ssa.Function
	rootKey  string
	lines    []string
	preamble []string // string constants etc.; always visible
	obls     []*Obligation
	n        int
	declared map[string]bool
	heapSort map[string]string
	heapType map[string]types.Type
	ver      map[string]*verInfo
	frameMemo map[string]bool
	strs     map[string]string
	budget   int
	inputs   []InputVar // symbolic inputs of the root function (for replay)
	notes    []string
	nframes  int
	quant    int // >0 while translating under a quantifier: definitions are inlined
	oblCount map[string]int
	curProps []string
	assumptionsUsed map[string]bool
	pendingFree     map[ssa.Value]Val
	inlined         map[string]bool
	allocTerm       string // bound for every make in the function under contract ("" = none)
	rootOlds        []Val  // values of the contract's old bindings (entry state)
	rootLogicals    []Val  // the contract's logical variables
	knownLen        map[string]int // slice terms with a small constant length
	readMemo        map[string]string
	rootRets        []retInfo // the return sites of the function under contract (unmerged)
	noSafety        bool      // contract option nosafety
	safetyOnly      map[string]bool // kinds of safety obligations kept under nosafety
	freshRefs       map[string]bool
	inlineAll       bool
	usedContracts   map[string]bool
	callOrd         map[string]int
	qn              int
	qvars           [][2]string // bound variables in scope (name, sort)
	qrepl           [][2]string // textual rewrites applied to terms built under the current quantifier
	qcur            string      // innermost bound variable whose first slice index is being looked for
	qoff            string      // (unused)
	qcands          []string          // bound variables whose first slice index is being looked for
	qoffs           map[string]string // bound variable -> offset of the first slice it indexes
	specDefs        map[*ssa.Function]*specDef
	specTrack       []*specTracker
	qdefMemo        map[string]string
	defBodies       map[string][2]string // parameterised definitions: name -> (parameter list, body)
	defScanned      int
	quantDefs       map[string]bool
	quantScanned    int
	entryAx         map[string]bool
	frameAxQ        map[string]bool
	freshBase       string // while a callee's postconditions are evaluated: the allocation counter at the call
	locksOn         bool              // contract option locks / guards
	callCovers      map[string]bool // call sites that already have a reachability guard
	inDispatch      int // inside the case split of a call through an interface
	rootContract    *Contract
	lockObls        bool              // relock/unlock/balance obligations are generated in this run
	guardObls       bool              // guarded-field obligations are generated in this run
	locksTouched    map[string]lockID
	keyTags         map[string]string // heap key -> type tag of its objects
	clauseNext      string // allocation counter of the state a contract clause is being evaluated in
	frame           struct {
		active bool
		strict bool // declared by the contract (modifies ...): copy/append/map writes are checked too and loops keep pre-existing objects
		next0  string
		refs   []string
	}
}

type InputVar struct {
	Name string
	Term string
	T    types.Type
}

func (eng *Engine) newVC(root *ssa.Function, key string) *VC {
	return &VC{eng: eng, root: root, rootKey: key, declared: map[string]bool{}, heapSort: map[string]string{},
		heapType: map[string]types.Type{}, ver: map[string]*verInfo{}, frameMemo: map[string]bool{}, strs: map[string]string{}, budget: 60000,
		oblCount: map[string]int{}, assumptionsUsed: map[string]bool{}, usedContracts: map[string]bool{}, callOrd: map[string]int{}, knownLen: map[string]int{}, readMemo: map[string]string{}}
}

func (vc *VC) sorts() *Sorts { return vc.eng.sorts }

func (vc *VC) emit(line string) { vc.lines = append(vc.lines, line) }

func (vc *VC) assume(term string) {
	if term == "true" || vc.quant > 0 {
		return
	}
	vc.emit("(assert " + term + ")")
}

func (vc *VC) name(hint string) string {
	vc.n++
	return fmt.Sprintf("g_%s_%d", mangle(hint), vc.n)
}

// fresh declares an unconstrained constant.
func (vc *VC) fresh(sort, hint string) string {
	if vc.quant > 0 {
		panic(unsupported("fresh value under quantifier: " + hint))
	}
	n := vc.name(hint)
	vc.emit(fmt.Sprintf("(declare-const %s %s)", n, sort))
	return n
}

// def names a term (keeps the formula a DAG). Short terms are returned as is.
func (vc *VC) def(sort, hint, term string) string {
	if len(term) < 24 || !strings.HasPrefix(term, "(") {
		return term
	}
	if vc.quant > 0 {
		// under a quantifier a definition is a function of the bound variables it mentions
		for _, r := range vc.qrepl {
			term = strings.ReplaceAll(term, r[0], r[1])
		}
		if len(term) < 48 {
			return term
		}
		var ps, as []string
		for _, qv := range vc.qvars {
			if mentions(term, qv[0]) {
				ps = append(ps, "("+qv[0]+" "+qv[1]+")")
				as = append(as, qv[0])
			}
		}
		// the same term gets the same name (terms built twice stay syntactically equal)
		mk := sort + "|" + strings.Join(ps, " ") + "|" + term
		if vc.qdefMemo == nil {
			vc.qdefMemo = map[string]string{}
		}
		if r, ok := vc.qdefMemo[mk]; ok {
			return r
		}
		n := vc.name(hint)
		if len(ps) == 0 {
			vc.emit(fmt.Sprintf("(define-fun %s () %s %s)", n, sort, term))
			vc.qdefMemo[mk] = n
			return n
		}
		vc.emit(fmt.Sprintf("(define-fun %s (%s) %s %s)", n, strings.Join(ps, " "), sort, term))
		r := "(" + n + " " + strings.Join(as, " ") + ")"
		vc.qdefMemo[mk] = r
		return r
	}
	n := vc.name(hint)
	vc.emit(fmt.Sprintf("(define-fun %s () %s %s)", n, sort, term))
	return n
}

// mentions: does term contain the identifier name (as a whole token)?
func mentions(term, name string) bool {
	for from := 0; ; {
		i := strings.Index(term[from:], name)
		if i < 0 {
			return false
		}
		i += from
		end := i + len(name)
		if (i == 0 || !isIdentChar(term[i-1])) && (end == len(term) || !isIdentChar(term[end])) {
			return true
		}
		from = i + 1
	}
}

func (vc *VC) note(s string) {
	for _, n := range vc.notes {
		if n == s {
			return
		}
	}
	vc.notes = append(vc.notes, s)
}

func (vc *VC) trust(s string) { vc.assumptionsUsed[s] = true }

// assumptionsUsedInl records a module function whose body was verified by
// inlining into the function under contract.
func (vc *VC) assumptionsUsedInl(fn string) {
	if vc.inlined == nil {
		vc.inlined = map[string]bool{}
	}
	vc.inlined[fn] = true
}

func (vc *VC) addObl(kind, fn, nameBase string, reach, goal string, pos token.Pos) *Obligation {
	full := sImp(reach, goal)
	vc.oblCount[nameBase]++
	name := nameBase
	if c := vc.oblCount[nameBase]; c > 1 {
		name = fmt.Sprintf("%s~%d", nameBase, c-1)
	}
	o := &Obligation{Name: name, Kind: kind, Fn: fn, Goal: full, UpTo: len(vc.lines), vc: vc, Props: vc.curProps}
	if pos.IsValid() {
		o.Pos = vc.eng.fset.Position(pos)
	}
	if vc.noSafety && kind == "call-pre" {
		// nosafety contract: callee preconditions are assumed like the other safety conditions
		return o
	}
	vc.obls = append(vc.obls, o)
	return o
}

// ---------------------------------------------------------------------------
// State: heap versions + allocation counter
// ---------------------------------------------------------------------------

type State struct {
	heap  map[string]string
	epoch int
	next  string
	held  map[string]string // lock term -> hold count term (BV8); see locks.go
}

func (st *State) clone() *State {
	n := &State{heap: make(map[string]string, len(st.heap)), epoch: st.epoch, next: st.next}
	for k, v := range st.heap {
		n.heap[k] = v
	}
	if st.held != nil {
		n.held = map[string]string{}
		for k, v := range st.held {
			n.held[k] = v
		}
	}
	return n
}

func (vc *VC) regHeap(key, sort string, t types.Type) {
	if _, ok := vc.heapSort[key]; !ok {
		vc.heapSort[key] = sort
		vc.heapType[key] = t
	}
}

func (vc *VC) heapVer(st *State, key string) string {
	if v, ok := st.heap[key]; ok {
		return v
	}
	ep := st.epoch
	if strings.HasPrefix(key, "Gl|") {
		ep = 0 // the hold state of this thread's locks is not part of the heap calls may change
	}
	n := fmt.Sprintf("g_H%d_%s", ep, vc.sorts().shortName("heap:"+key))
	if !vc.declared[n] {
		vc.declared[n] = true
		srt, ok := vc.heapSort[key]
		if !ok {
			panic("heap key not registered: " + key)
		}
		// initial versions go to the preamble so that any query can mention them
		vc.preamble = append(vc.preamble, fmt.Sprintf("(declare-const %s %s)", n, srt))
		vc.ver[n] = &verInfo{kind: 0}
	}
	return n
}

func (vc *VC) setHeap(st *State, key, term string, info *verInfo) string {
	n := term
	if vc.quant == 0 {
		n = vc.name("H_" + vc.sorts().shortName("heap:"+key))
		vc.emit(fmt.Sprintf("(define-fun %s () %s %s)", n, vc.heapSort[key], term))
	}
	if info.parent != "" {
		if p, ok := vc.ver[info.parent]; ok && p.framed {
			info.framed = true
		}
	}
	if info.other != "" {
		if p, ok := vc.ver[info.other]; ok && p.framed {
			info.framed = true
		}
	}
	if info.kind == 3 {
		info.framed = true
	}
	vc.ver[n] = info
	st.heap[key] = n
	return n
}

// havocHeap replaces the version of key by an unconstrained one. With limit != ""
// the new version is framed: cells at refs < limit, other than the exempt ones,
// keep their value (instantiated lazily at each later read).
func (vc *VC) havocHeap(st *State, key string, limit string, exempt []string) {
	old := vc.heapVer(st, key)
	n := vc.name("Hh_" + vc.sorts().shortName("heap:"+key))
	vc.emit(fmt.Sprintf("(declare-const %s %s)", n, vc.heapSort[key]))
	if limit != "" {
		vc.ver[n] = &verInfo{kind: 3, parent: old, limit: limit, exempt: exempt, framed: true, bound: st.next, key: key}
	} else {
		vc.ver[n] = &verInfo{kind: 0, bound: st.next}
	}
	st.heap[key] = n
}

// havocAll forgets everything about the heap (callee with unknown effects).
func (vc *VC) havocAll(st *State) {
	vc.eng.epochs++
	st.epoch = vc.eng.epochs
	// the hold counters of this thread's locks survive: calls are assumed lock-neutral
	kept := map[string]string{}
	for k, v := range st.heap {
		if strings.HasPrefix(k, "Gl|") {
			kept[k] = v
		}
	}
	st.heap = kept
	vc.bumpNext(st)
}

func (vc *VC) bumpNext(st *State) {
	n := vc.fresh(refSort, "next")
	vc.assume(fmt.Sprintf("(and (bvule %s %s) (bvult %s #x4000000000000000))", st.next, n, n))
	st.next = n
}

// frameFacts emits, for a read of key at ref from version ver, the ground
// instances of the frame conditions of all framed havocs below ver.
func (vc *VC) frameFacts(ver, ref string) {
	info, ok := vc.ver[ver]
	if !ok || !info.framed {
		return
	}
	if vc.quant > 0 {
		// no ground instance can be assumed under a quantifier: state the frame
		// conditions of the versions below ver in quantified form, once
		vc.frameAxiomsQ(ver, 0)
		return
	}
	mk := ver + "|" + ref
	if vc.frameMemo[mk] {
		return
	}
	vc.frameMemo[mk] = true
	switch info.kind {
	case 1:
		vc.frameFacts(info.parent, ref)
	case 2:
		vc.frameFacts(info.parent, ref)
		vc.frameFacts(info.other, ref)
	case 3:
		conds := []string{fmt.Sprintf("(bvult %s %s)", ref, info.limit)}
		for _, e := range info.exempt {
			conds = append(conds, sNot(vc.exemptIs(info.key, ref, e)))
		}
		vc.assume(sImp(sAnd(conds...), fmt.Sprintf("(= (select %s %s) (select %s %s))", ver, ref, info.parent, ref)))
		vc.frameFacts(info.parent, ref)
	case 4:
		// everything may have changed except the protected objects
		var alts []string
		for _, e := range info.exempt {
			alts = append(alts, fmt.Sprintf("(= %s %s)", ref, e))
		}
		vc.assume(sImp(sOr(alts...), fmt.Sprintf("(= (select %s %s) (select %s %s))", ver, ref, info.parent, ref)))
		vc.frameFacts(info.parent, ref)
	}
}

func (vc *VC) frameAxiomsQ(ver string, depth int) {
	info, ok := vc.ver[ver]
	if !ok || !info.framed || depth > 60 {
		return
	}
	if vc.frameAxQ == nil {
		vc.frameAxQ = map[string]bool{}
	}
	if vc.frameAxQ[ver] {
		return
	}
	vc.frameAxQ[ver] = true
	switch info.kind {
	case 1:
		vc.frameAxiomsQ(info.parent, depth+1)
	case 2:
		vc.frameAxiomsQ(info.parent, depth+1)
		vc.frameAxiomsQ(info.other, depth+1)
	case 3:
		conds := []string{fmt.Sprintf("(bvult g_fr %s)", info.limit)}
		for _, e := range info.exempt {
			conds = append(conds, sNot(vc.exemptIs(info.key, "g_fr", e)))
		}
		vc.emit(fmt.Sprintf("(assert (forall ((g_fr (_ BitVec 64))) (! (=> %s (= (select %s g_fr) (select %s g_fr))) :pattern ((select %s g_fr)))))", sAnd(conds...), ver, info.parent, ver))
		vc.frameAxiomsQ(info.parent, depth+1)
	case 4:
		for _, e := range info.exempt {
			vc.emit(fmt.Sprintf("(assert (= (select %s %s) (select %s %s)))", ver, e, info.parent, e))
		}
		vc.frameAxiomsQ(info.parent, depth+1)
	}
}

// havocProtect forgets every heap array known so far except the cells of the
// protected objects (contract clause `preserves`).
func (vc *VC) havocProtect(st *State, protect []string, keepPrefixes []string) {
	vc.bumpNext(st)
	for _, key := range sortedKeys(vc.heapSort) {
		keep := strings.HasPrefix(key, "Gl|") // lock state: calls are lock-neutral (locks.go)
		for _, p := range keepPrefixes {
			if strings.HasPrefix(key, p) {
				keep = true
			}
		}
		if keep {
			continue
		}
		old := vc.heapVer(st, key)
		n := vc.name("Hp_" + vc.sorts().shortName("heap:"+key))
		vc.emit(fmt.Sprintf("(declare-const %s %s)", n, vc.heapSort[key]))
		vc.ver[n] = &verInfo{kind: 4, parent: old, exempt: protect, framed: true, bound: st.next}
		st.heap[key] = n
	}
}

// refTerms lists the reference-valued parts of a value term of type t
// (pointers, backing arrays of slices, interface payloads; through structs).
func (vc *VC) refTerms(t types.Type, term string, depth int) []string {
	if depth > 4 {
		return nil
	}
	switch u := t.Underlying().(type) {
	case *types.Pointer, *types.Map, *types.Chan:
		return []string{term}
	case *types.Slice:
		return []string{app("g_sarr", term)}
	case *types.Interface:
		return []string{app("g_iref", term)}
	case *types.Struct:
		var res []string
		for i := 0; i < u.NumFields(); i++ {
			res = append(res, vc.refTerms(u.Field(i).Type(), vc.sorts().selField(t, i, term), depth+1)...)
		}
		return res
	}
	return nil
}

// wfTerms lists the well-formedness facts of the slice-valued parts of a value
// term of type t (through structs).
func (vc *VC) wfTerms(t types.Type, term string, depth int) []string {
	if depth > 4 {
		return nil
	}
	switch u := t.Underlying().(type) {
	case *types.Slice:
		return []string{fmt.Sprintf("(and (bvsle (_ bv0 64) (g_slen %s)) (bvsle (g_slen %s) (g_scap %s)) (bvsle (_ bv0 64) (g_soff %s)) (bvsle (g_soff %s) #x0000ffffffffffff) (bvsle (g_scap %s) #x0000ffffffffffff) (=> (= (g_sarr %s) (_ bv0 64)) (= (g_scap %s) (_ bv0 64))))",
			term, term, term, term, term, term, term, term)}
	case *types.Interface:
		return []string{fmt.Sprintf("(=> (= (g_itag %s) (_ bv0 32)) (= (g_iref %s) (_ bv0 64)))", term, term)}
	case *types.Struct:
		var res []string
		for i := 0; i < u.NumFields(); i++ {
			res = append(res, vc.wfTerms(u.Field(i).Type(), vc.sorts().selField(t, i, term), depth+1)...)
		}
		return res
	}
	return nil
}

// typingAxioms: the typing facts that every read of a heap cell gets
// (references denote existing objects; slices are well-formed) are stated per
// read. Under a quantifier there is no such read, so they are stated in
// quantified form for the unconstrained heap versions (the entry heap and the
// versions introduced by loop cuts and calls) that version ver is built from:
// once per version, when a quantified clause first reads it. For the entry heap
// the references are below the entry allocation counter.
func (vc *VC) typingAxioms(key, ver string, depth int) {
	if depth > 60 {
		return
	}
	if vc.entryAx == nil {
		vc.entryAx = map[string]bool{}
	}
	if vc.entryAx[ver] {
		return
	}
	vc.entryAx[ver] = true
	info, ok := vc.ver[ver]
	if !ok {
		return
	}
	switch info.kind {
	case 1:
		vc.typingAxioms(key, info.parent, depth+1)
		return
	case 2:
		vc.typingAxioms(key, info.parent, depth+1)
		vc.typingAxioms(key, info.other, depth+1)
		return
	case 3, 4:
		vc.typingAxioms(key, info.parent, depth+1)
	}
	t := vc.heapType[key]
	if strings.HasPrefix(key, "Mc|") {
		// number of keys of a map
		cell := fmt.Sprintf("(select %s g_ar)", ver)
		ax := fmt.Sprintf("(assert (forall ((g_ar (_ BitVec 64))) (! (and (bvsle (_ bv0 64) %s) (bvsle %s #x0000ffffffffffff)) :pattern (%s))))", cell, cell, cell)
		if info.kind == 0 && strings.HasPrefix(ver, "g_H0_") {
			vc.preamble = append(vc.preamble, ax)
		} else {
			vc.emit(ax)
		}
		return
	}
	if t == nil || !(strings.HasPrefix(key, "F|") || strings.HasPrefix(key, "E|") || strings.HasPrefix(key, "B|")) {
		return
	}
	var cell, bind string
	if strings.HasPrefix(key, "E|") {
		cell = fmt.Sprintf("(select (select %s g_ar) g_ai)", ver)
		bind = "((g_ar (_ BitVec 64)) (g_ai (_ BitVec 64)))"
	} else {
		cell = fmt.Sprintf("(select %s g_ar)", ver)
		bind = "((g_ar (_ BitVec 64)))"
	}
	facts := vc.wfTerms(t, cell, 0)
	if strings.HasPrefix(ver, "g_H0_") {
		for _, r := range vc.refTerms(t, cell, 0) {
			facts = append(facts, fmt.Sprintf("(bvult %s g_next0)", r))
		}
	} else if info.bound != "" {
		for _, r := range vc.refTerms(t, cell, 0) {
			facts = append(facts, fmt.Sprintf("(bvult %s %s)", r, info.bound))
		}
	}
	if len(facts) == 0 {
		return
	}
	ax := fmt.Sprintf("(assert (forall %s (! %s :pattern (%s))))", bind, sAnd(facts...), cell)
	if info.kind == 0 && strings.HasPrefix(ver, "g_H0_") {
		vc.preamble = append(vc.preamble, ax)
	} else {
		vc.emit(ax)
	}
}

func (vc *VC) readCell(st *State, key, ref string) string {
	for _, t := range vc.specTrack {
		t.keys[key] = true
	}
	v := vc.heapVer(st, key)
	vc.frameFacts(v, ref)
	if vc.quant > 0 {
		vc.typingAxioms(key, v, 0)
	}
	return vc.readVer(v, ref, vc.heapCellSort(key), 0)
}

func (vc *VC) heapCellSort(key string) string {
	// heap sort is (Array (_ BitVec 64) <cell>)
	s := vc.heapSort[key]
	const pre = "(Array (_ BitVec 64) "
	if strings.HasPrefix(s, pre) {
		return s[len(pre) : len(s)-1]
	}
	return ""
}

// readVer resolves a read at generation time where the version structure
// allows it: through joins (select of an ite of arrays becomes an ite of
// selects) and through stores to the syntactically same reference. This keeps
// array-ite reasoning away from the solvers.
func (vc *VC) readVer(ver, ref, cellSort string, depth int) string {
	plain := fmt.Sprintf("(select %s %s)", ver, ref)
	info, ok := vc.ver[ver]
	if !ok || cellSort == "" || depth > 40 {
		return plain
	}
	mk := ver + "|" + ref
	if r, ok := vc.readMemo[mk]; ok {
		return r
	}
	res := plain
	switch info.kind {
	case 1:
		if info.storeRef == ref {
			res = info.storeVal
		} else if info.storeRef != "" && vc.freshRefs[info.storeRef] && vc.freshRefs[ref] {
			// two different allocation sites: different objects
			res = vc.readVer(info.parent, ref, cellSort, depth+1)
		}
	case 2:
		a := vc.readVer(info.parent, ref, cellSort, depth+1)
		b := vc.readVer(info.other, ref, cellSort, depth+1)
		res = vc.def(cellSort, "rd", sIte(info.cond, a, b))
	}
	vc.readMemo[mk] = res
	return res
}

func (vc *VC) writeCell(st *State, key, ref, val string) {
	v := vc.heapVer(st, key)
	valName := val
	if vc.quant == 0 {
		if cs := vc.heapCellSort(key); cs != "" {
			valName = vc.def(cs, "cell", val)
		}
	}
	vc.setHeap(st, key, fmt.Sprintf("(store %s %s %s)", v, ref, valName), &verInfo{kind: 1, parent: v, storeRef: ref, storeVal: valName})
}

// mergeStates joins states along edges with the given conditions (the last
// condition is implied: it is the default branch).
func (vc *VC) mergeStates(conds []string, sts []*State) *State {
	if len(sts) == 1 {
		return sts[0].clone()
	}
	// different epochs cannot be merged key by key: bring all to a fresh epoch
	ep := sts[0].epoch
	same := true
	for _, s := range sts {
		if s.epoch != ep {
			same = false
		}
	}
	if !same {
		// conservative: forget the heap
		out := sts[0].clone()
		nx := sts[0].next
		for i := 1; i < len(sts); i++ {
			nx = sIte(conds[i-1], nx, sts[i].next) // rough; replaced below
		}
		vc.havocAll(out)
		vc.note("heap forgotten at a join of paths with different unknown-effect calls")
		// the lock state is joined exactly
		lk := map[string]bool{}
		for _, s := range sts {
			for k := range s.heap {
				if strings.HasPrefix(k, "Gl|") {
					lk[k] = true
				}
			}
		}
		for _, k := range sortedKeys(lk) {
			cur := vc.heapVer(sts[len(sts)-1], k)
			for i := len(sts) - 2; i >= 0; i-- {
				v := vc.heapVer(sts[i], k)
				if v == cur {
					continue
				}
				prev := cur
				st2 := &State{heap: map[string]string{}}
				cur = vc.setHeap(st2, k, sIte(conds[i], v, prev), &verInfo{kind: 2, parent: v, other: prev, cond: conds[i]})
			}
			out.heap[k] = cur
		}
		return out
	}
	out := &State{heap: map[string]string{}, epoch: ep}
	keys := map[string]bool{}
	for _, s := range sts {
		for k := range s.heap {
			keys[k] = true
		}
	}
	var ks []string
	for k := range keys {
		ks = append(ks, k)
	}
	sort.Strings(ks)
	for _, k := range ks {
		vals := make([]string, len(sts))
		allSame := true
		for i, s := range sts {
			vals[i] = vc.heapVer(s, k)
			if vals[i] != vals[0] {
				allSame = false
			}
		}
		if allSame {
			out.heap[k] = vals[0]
			continue
		}
		cur := vals[len(vals)-1]
		for i := len(vals) - 2; i >= 0; i-- {
			if vals[i] == cur {
				continue
			}
			prev := cur
			term := sIte(conds[i], vals[i], prev)
			st2 := &State{heap: map[string]string{}}
			cur = vc.setHeap(st2, k, term, &verInfo{kind: 2, parent: vals[i], other: prev, cond: conds[i]})
		}
		out.heap[k] = cur
	}
	nx := sts[len(sts)-1].next
	for i := len(sts) - 2; i >= 0; i-- {
		nx = sIte(conds[i], sts[i].next, nx)
	}
	out.next = vc.def(refSort, "next", nx)
	// locks
	for _, s := range sts {
		if s.held != nil {
			out.held = map[string]string{}
		}
	}
	if out.held != nil {
		lk := map[string]bool{}
		for _, s := range sts {
			for k := range s.held {
				lk[k] = true
			}
		}
		for k := range lk {
			get := func(s *State) string {
				if v, ok := s.held[k]; ok {
					return v
				}
				return bvConst(0, 8)
			}
			cur := get(sts[len(sts)-1])
			for i := len(sts) - 2; i >= 0; i-- {
				cur = sIte(conds[i], get(sts[i]), cur)
			}
			out.held[k] = vc.def(bvSort(8), "held", cur)
		}
	}
	return out
}

// alloc returns a fresh non-nil reference.
func (vc *VC) alloc(st *State) string {
	r := st.next
	if vc.freshRefs == nil {
		vc.freshRefs = map[string]bool{}
	}
	vc.freshRefs[r] = true
	st.next = vc.def(refSort, "next", fmt.Sprintf("(bvadd %s %s)", r, bvConst(1, 64)))
	return r
}

// strConst returns the SMT constant for a Go string literal.
func (vc *VC) strConst(s string) string {
	if s == "" {
		return "g_emptystr"
	}
	if n, ok := vc.strs[s]; ok {
		return n
	}
	n := fmt.Sprintf("g_str%d", len(vc.strs))
	vc.strs[s] = n
	vc.preamble = append(vc.preamble, fmt.Sprintf("(declare-const %s g_Str) ; %q", n, truncate(s, 40)))
	vc.preamble = append(vc.preamble, fmt.Sprintf("(assert (= (g_strlen %s) %s))", n, bvConst(uint64(len(s)), 64)))
	if len(s) <= 64 {
		for i := 0; i < len(s); i++ {
			vc.preamble = append(vc.preamble, fmt.Sprintf("(assert (= (g_strat %s %s) %s))", n, bvConst(uint64(i), 64), bvConst(uint64(s[i]), 8)))
		}
	}
	return n
}

func truncate(s string, n int) string {
	s = strings.ReplaceAll(s, "\n", " ")
	if len(s) > n {
		return s[:n] + "..."
	}
	return s
}

// script renders the query for one obligation.
func (vc *VC) script(o *Obligation, produceModels bool) string {
	var b strings.Builder
	if produceModels {
		b.WriteString("(set-option :produce-models true)\n")
	}
	b.WriteString("(set-logic ALL)\n")
	sortDeclsAt := b.Len()
	b.WriteString("(declare-const g_emptystr g_Str)\n(assert (= (g_strlen g_emptystr) (_ bv0 64)))\n")
	b.WriteString("(define-fun g_nilslice () g_Slice (g_mkslice (_ bv0 64) (_ bv0 64) (_ bv0 64) (_ bv0 64)))\n")
	b.WriteString("(define-fun g_niliface () g_Iface (g_mkiface (_ bv0 32) (_ bv0 64)))\n")
	// global declarations (uninterpreted functions, sequence-equality predicates and
	// their axioms, float operations) are shared by all functions of a run; a query
	// gets only those it mentions, so that unrelated contracts do not perturb it
	used := map[string]bool{}
	note := func(l string) {
		for _, sname := range symRe.FindAllString(l, -1) {
			used[sname] = true
		}
	}
	for _, d := range vc.preamble {
		note(d)
	}
	for _, l := range vc.lines[:o.UpTo] {
		note(l)
	}
	note(o.Goal)
	declared := map[string]bool{}
	for _, d := range vc.eng.globalDecls {
		if strings.HasPrefix(d, "(declare-fun ") {
			f := strings.Fields(d)
			if len(f) >= 2 {
				declared[f[1]] = true
			}
		}
	}
	for _, d := range vc.eng.globalDecls {
		if o.Weak && isQuantAssert(d) {
			continue
		}
		keep := true
		if strings.HasPrefix(d, "(declare-fun ") {
			f := strings.Fields(d)
			keep = len(f) < 2 || used[f[1]] || !strings.HasPrefix(f[1], "g_")
		} else if strings.HasPrefix(d, "(assert ") {
			for _, sname := range symRe.FindAllString(d, -1) {
				if declared[sname] && !used[sname] {
					keep = false
				}
			}
		}
		if !keep {
			continue
		}
		b.WriteString(d)
		b.WriteString("\n")
	}
	for _, d := range vc.preamble {
		if o.Weak && isQuantAssert(d) {
			continue
		}
		b.WriteString(d)
		b.WriteString("\n")
	}
	if len(vc.strs) > 0 {
		var ns []string
		for _, n := range vc.strs {
			ns = append(ns, n)
		}
		sort.Strings(ns)
		b.WriteString("(assert (distinct g_emptystr " + strings.Join(ns, " ") + "))\n")
	}
	for _, l := range vc.lines[:o.UpTo] {
		if o.Weak && isQuantAssert(l) {
			continue
		}
		b.WriteString(l)
		b.WriteString("\n")
	}
	if o.ExpectSat {
		b.WriteString("(assert " + o.Goal + ")\n")
	} else {
		b.WriteString("(assert (not " + o.Goal + "))\n")
	}
	b.WriteString("(check-sat)\n")
	// struct sorts are declared once per run for every type met so far; a query
	// declares only those it uses (directly or through other declared sorts)
	text := b.String()
	head, rest := text[:sortDeclsAt], text[sortDeclsAt:]
	usedSyms := map[string]bool{}
	for _, sname := range symRe.FindAllString(rest, -1) {
		usedSyms[sname] = true
	}
	decls := vc.sorts().decls
	keep := make([]bool, len(decls))
	for changed := true; changed; {
		changed = false
		for i, d := range decls {
			if keep[i] {
				continue
			}
			k := true
			if strings.HasPrefix(d, "(declare-datatypes ((g_S_") {
				name := d[len("(declare-datatypes (("):]
				if sp := strings.IndexByte(name, ' '); sp > 0 {
					name = name[:sp]
				}
				k = usedSyms[name] || usedSyms["mk_"+name]
				if !k {
					for sname := range usedSyms {
						if strings.HasPrefix(sname, name+"_f") {
							k = true
							break
						}
					}
				}
			}
			if k {
				keep[i] = true
				changed = true
				for _, sname := range symRe.FindAllString(d, -1) {
					usedSyms[sname] = true
				}
			}
		}
	}
	var sb strings.Builder
	sb.WriteString(head)
	for i, d := range decls {
		if keep[i] {
			sb.WriteString(d)
			sb.WriteString("\n")
		}
	}
	sb.WriteString(rest)
	return sb.String()
}

// isQuantAssert: an assumption line that is, or is guarded by a plain condition
// and then is, a quantified library fact (dropped in weakened queries).
func isQuantAssert(l string) bool {
	if strings.HasPrefix(l, "(assert (forall") {
		return true
	}
	return strings.HasPrefix(l, "(assert (=> ") && strings.Contains(l, " (forall ((g_j ")
}

var symRe = regexp.MustCompile(`g_[A-Za-z0-9_]+`)

// sliceScript keeps, of a full query, only the definitions in the cone of
// influence of the goal and the assumptions that speak exclusively about that
// cone (and no quantified facts). Dropping assumptions only weakens the
// hypotheses, so an unsat answer on the sliced query is a valid discharge.
func sliceScript(script string) string {
	lines := strings.Split(script, "\n")
	defBody := map[string]string{} // defined name -> body text
	isVar := map[string]bool{}
	for _, l := range lines {
		if strings.HasPrefix(l, "(define-fun ") || strings.HasPrefix(l, "(declare-const ") {
			f := strings.Fields(l)
			if len(f) >= 2 {
				isVar[f[1]] = true
				if strings.HasPrefix(l, "(define-fun ") {
					defBody[f[1]] = l
				}
			}
		}
	}
	// goal = last assert
	goalIdx := -1
	for i := len(lines) - 1; i >= 0; i-- {
		if strings.HasPrefix(lines[i], "(assert ") {
			goalIdx = i
			break
		}
	}
	if goalIdx < 0 {
		return script
	}
	cone := map[string]bool{}
	var work []string
	add := func(text string) {
		for _, s := range symRe.FindAllString(text, -1) {
			if isVar[s] && !cone[s] {
				cone[s] = true
				work = append(work, s)
			}
		}
	}
	add(lines[goalIdx])
	for len(work) > 0 {
		s := work[len(work)-1]
		work = work[:len(work)-1]
		if body, ok := defBody[s]; ok {
			add(body)
		}
	}
	var b strings.Builder
	for i, l := range lines {
		switch {
		case i == goalIdx:
			b.WriteString(l + "\n")
		case strings.HasPrefix(l, "(define-fun ") || strings.HasPrefix(l, "(declare-const "):
			f := strings.Fields(l)
			if len(f) >= 2 && (cone[f[1]] || !strings.HasPrefix(f[1], "g_")) {
				b.WriteString(l + "\n")
			} else if len(f) >= 2 && !isVar[f[1]] {
				b.WriteString(l + "\n")
			}
		case isQuantAssert(l):
			// dropped
		case strings.HasPrefix(l, "(assert "):
			ok := true
			for _, s := range symRe.FindAllString(l, -1) {
				if isVar[s] && !cone[s] {
					ok = false
					break
				}
			}
			if ok {
				b.WriteString(l + "\n")
			}
		default:
			b.WriteString(l + "\n")
		}
	}
	return b.String()
}
