package main

import (
	"fmt"
	"go/token"
	"go/types"

	"golang.org/x/tools/go/ssa"
)

// ---------------------------------------------------------------------------
// Ghost state of connections (net.Conn / io.Writer / io.Closer values).
//
// A connection object is identified by the reference inside the interface
// value. The model records, per connection:
//   closed       Close() has been called
//   notified     a BGP NOTIFICATION (type octet 3, at least 21 bytes) was written
//   ncode, nsub  its error code / subcode (of the last one written)
//   nbc          the NOTIFICATION was written while the connection was not closed
//   nwrites      number of Write calls
// Contracts read this state through the ghost predicates verif_closed(c),
// verif_notified(c), verif_notif_code(c), verif_notif_sub(c),
// verif_notified_open(c), verif_writes(c); these have no run-time observer.
// ---------------------------------------------------------------------------

var ghostConnKeys = []struct {
	key, sort string
}{
	{"Gh|chclosed", "Bool"}, {"Gh|closed", "Bool"}, {"Gh|notified", "Bool"}, {"Gh|ncode", "(_ BitVec 8)"}, {"Gh|nsub", "(_ BitVec 8)"}, {"Gh|nbc", "Bool"}, {"Gh|nwrites", "(_ BitVec 64)"},
}

func (vc *VC) ghostKey(key string) string {
	for _, g := range ghostConnKeys {
		if g.key == key {
			vc.regHeap(key, "(Array (_ BitVec 64) "+g.sort+")", nil)
			return key
		}
	}
	panic("unknown ghost key " + key)
}

func isConnMethod(c *ssa.CallCommon) (string, bool) {
	if !c.IsInvoke() {
		return "", false
	}
	n := c.Method.Name()
	if n != "Close" && n != "Write" {
		return "", false
	}
	// the interface must not be a module interface (those are dispatched closed-world)
	if nt, ok := c.Value.Type().(*types.Named); ok && nt.Obj().Pkg() != nil {
		p := nt.Obj().Pkg().Path()
		if p == "net" || p == "io" {
			return n, true
		}
	}
	return "", false
}

func (eng *Engine) addGhostConn(m *ModSet) {
	for _, g := range ghostConnKeys {
		eng.addKey(m, g.key, keyInfo{kind: "Gh"})
	}
}

// connCall models Close and Write on a connection.
func (fr *Frame) connCall(b *ssa.BasicBlock, method string, c *ssa.CallCommon, st *State, reach string, pos token.Pos) *Val {
	vc := fr.vc
	recv := fr.get(c.Value)
	fr.safe("nil", reach, sNot(sEq(app("g_itag", recv.S), bvConst(0, 32))), pos)
	ref := vc.def(refSort, "conn", app("g_iref", recv.S))
	vc.trust("model: net.Conn/io.Writer ghost state (closed flag, last NOTIFICATION written, write count); Write/Close have no other effect on program state")
	errT := types.Universe.Lookup("error").Type()
	errv := vc.fresh("g_Iface", "connerr")
	vc.typingFacts(st, errT, errv)
	switch method {
	case "Close":
		vc.writeCell(st, vc.ghostKey("Gh|closed"), ref, "true")
		return &Val{T: errT, S: errv}
	case "Write":
		p := fr.get(c.Args[0]).S
		arr := vc.readCell(st, vc.elemKey(types.Typ[types.Uint8]), app("g_sarr", p))
		at := func(k int) string {
			return fmt.Sprintf("(select %s (bvadd (g_soff %s) %s))", arr, p, bvConst(uint64(k), 64))
		}
		isNotif := vc.def("Bool", "isnotif", sAnd(app("bvsge", app("g_slen", p), bvConst(21, 64)), sEq(at(18), bvConst(3, 8))))
		closed := vc.readCell(st, vc.ghostKey("Gh|closed"), ref)
		upd := func(key, val string) {
			old := vc.readCell(st, vc.ghostKey(key), ref)
			vc.writeCell(st, vc.ghostKey(key), ref, sIte(isNotif, val, old))
		}
		upd("Gh|notified", "true")
		upd("Gh|ncode", at(19))
		upd("Gh|nsub", at(20))
		upd("Gh|nbc", sNot(closed))
		nw := vc.readCell(st, vc.ghostKey("Gh|nwrites"), ref)
		vc.writeCell(st, vc.ghostKey("Gh|nwrites"), ref, app("bvadd", nw, bvConst(1, 64)))
		n := vc.fresh(bvSort(64), "nwritten")
		vc.assume(fmt.Sprintf("(and (bvsle (_ bv0 64) %s) (bvsle %s (g_slen %s)))", n, n, p))
		return &Val{T: c.Signature().Results(), Tup: []Val{{T: types.Typ[types.Int], S: n}, {T: errT, S: errv}}}
	}
	panic("connCall")
}

// ghostPredicate evaluates the ghost predicates of the contract language.
func (fr *Frame) ghostPredicate(name string, args []Val, st *State) (*Val, bool) {
	vc := fr.vc
	get := func(key string) string {
		return vc.readCell(st, vc.ghostKey(key), app("g_iref", args[0].S))
	}
	switch name {
	case "verif_closed":
		return &Val{T: types.Typ[types.Bool], S: get("Gh|closed")}, true
	case "verif_chclosed":
		// the channel has been closed (channel values are references)
		return &Val{T: types.Typ[types.Bool], S: vc.readCell(st, vc.ghostKey("Gh|chclosed"), args[0].S)}, true
	case "verif_notified":
		return &Val{T: types.Typ[types.Bool], S: get("Gh|notified")}, true
	case "verif_notified_open":
		return &Val{T: types.Typ[types.Bool], S: sAnd(get("Gh|notified"), get("Gh|nbc"))}, true
	case "verif_notif_code":
		return &Val{T: types.Typ[types.Uint8], S: get("Gh|ncode")}, true
	case "verif_notif_sub":
		return &Val{T: types.Typ[types.Uint8], S: get("Gh|nsub")}, true
	case "verif_writes":
		return &Val{T: types.Typ[types.Int], S: get("Gh|nwrites")}, true
	}
	return nil, false
}

const ghostPrelude = `
// Ghost predicates on connections (no run-time observer; see govc/ghost.go).
func verif_closed(c any) bool        { return false }
func verif_chclosed[T any](c chan T) bool { return false }
// hold state of a mutex for the executing thread (contract option locks)
func verif_wheld[T any](m *T) bool { return false }
func verif_rheld[T any](m *T) bool { return false }
func verif_held[T any](m *T) bool  { return false }
// number of static calls (made by the function under contract itself, as far as
// its body is executed) of the functions named by the contract option counts
// with p as first argument; a lower bound of the real count (ghost.go)
func verif_calls[T any](p *T) int { verif_ghostUsed = true; return 0 }
func verif_notified(c any) bool      { return false }
func verif_notified_open(c any) bool { return false }
func verif_notif_code(c any) uint8   { return 0 }
func verif_notif_sub(c any) uint8    { return 0 }
func verif_writes(c any) int         { return 0 }

// Uninterpreted functions of an object (named by a string constant): the value
// is determined by the object's identity alone.
func verif_uf_str(name string, p any) string { verif_ghostUsed = true; return "" }
func verif_uf_u64(name string, p any) uint64 { verif_ghostUsed = true; return 0 }
func verif_uf_val[T any](name string, p any) T { verif_ghostUsed = true; var z T; return z }

var _ = verif_closed
var _ = verif_notified
var _ = verif_notified_open
var _ = verif_notif_code
var _ = verif_notif_sub
var _ = verif_writes
var _ = verif_uf_str
var _ = verif_uf_u64
`

// ---------------------------------------------------------------------------
// Ghost call counter (contract option `counts f,...`; predicate verif_calls(p)).
//
// "Every path through the function calls f on this object" is not a
// postcondition over program state. With `counts f` each static call of a
// function named f that the execution of the function under contract reaches
// (directly or in an inlined callee) adds one to a ghost counter of the call's
// first argument (a pointer: the receiver). The counter lives with the lock
// state ("Gl|" keys): no call or loop havoc changes it, so calls made inside
// callees that are applied by contract, or by loop iterations that are
// summarised by an invariant, are NOT counted - verif_calls is a lower bound
// of the real count, and only lower-bound clauses (verif_calls(p) - c0 >= 1)
// are sound. The counter is a 64-bit vector with an arbitrary entry value: state
// clauses as a difference (verif_calls(p) - c0 >= 1), which wrap-around keeps exact.
// ---------------------------------------------------------------------------

const callCountKey = "Gl|calls"

func (fr *Frame) countCall(f *ssa.Function, args []Val, st *State) {
	vc := fr.vc
	if vc.rootContract == nil || len(vc.rootContract.Counts) == 0 || fr.pure || len(args) == 0 {
		return
	}
	hit := false
	for _, n := range vc.rootContract.Counts {
		if n == f.Name() {
			hit = true
		}
	}
	if !hit {
		return
	}
	if _, ok := args[0].T.Underlying().(*types.Pointer); !ok {
		return
	}
	vc.regHeap(callCountKey, "(Array (_ BitVec 64) (_ BitVec 64))", nil)
	cnt := vc.readCell(st, callCountKey, args[0].S)
	vc.writeCell(st, callCountKey, args[0].S, app("bvadd", cnt, bvConst(1, 64)))
}

func (fr *Frame) callsPredicate(args []Val, st *State) *Val {
	vc := fr.vc
	vc.regHeap(callCountKey, "(Array (_ BitVec 64) (_ BitVec 64))", nil)
	c := vc.readCell(st, callCountKey, args[0].S)
	return &Val{T: types.Typ[types.Int], S: c}
}
