package main

import (
	"strconv"
	"encoding/json"
	"fmt"
	"go/token"
	"go/types"
	"math"
	"os"
	"path/filepath"
	"sort"
	"strings"

	"golang.org/x/tools/go/packages"
	"golang.org/x/tools/go/ssa"
	"golang.org/x/tools/go/ssa/ssautil"
)

const modulePath = "github.com/bio-routing/bio-rd"

type Engine struct {
	repo      string
	fset      *token.FileSet
	prog      *ssa.Program
	pkgs      map[string]*ssa.Package // by import path
	sorts     *Sorts
	specs     map[string]*pkgSpec
	contracts map[*ssa.Function]*Contract
	byKey     map[string]*Contract
	ifaceContracts map[*types.Func]*Contract // contracts of interface methods (assumed of every implementation)
	elabSrc  map[string]string // rel dir -> synthetic source

	loopCache map[*ssa.Function]*LoopInfo
	modCache  map[*ssa.Function]*ModSet
	implCache map[string][]*ssa.Function
	keyInfos  map[string]keyInfo
	allNamed  []types.Type
	closures  map[string]*closureInfo
	ifaceLocs map[string]*Loc
	ranges    map[*ssa.Range]*rangeInfo
	safeOrd   map[string]int
	tags      map[string]int
	tagTypes  []types.Type
	funcRefs  map[*ssa.Function]int
	epochs    int

	globalDecls []string
	floatOn     bool
	strBytesOn  bool
	floatConsts map[uint64]bool

	maxInline       int
	maxInlineInstrs int
	maxDispatch     int
	models          map[string]*model
	extraOverlay    map[string]string // path -> replacement file (self-test mutations)
	curProp         string            // property being checked in this run
	guarded         map[string]guardInfo // guarded field key -> mutex field
	lockLevels      map[string]lockLevel // mutex field key -> level in the lock order
	specQuant       map[*ssa.Function]bool
	boundedResults  []boundedResult
	misfits         []*Contract       // contracts whose clauses no longer type-check against the code
	constGlobals    map[*ssa.Global]*ssa.Const
}

func (eng *Engine) readExtraOverlay(path string) error {
	data, err := os.ReadFile(path)
	if err != nil {
		return err
	}
	var doc struct{ Replace map[string]string }
	if err := json.Unmarshal(data, &doc); err != nil {
		return err
	}
	eng.extraOverlay = doc.Replace
	return nil
}

func newEngine(repo string) *Engine {
	return &Engine{repo: repo, sorts: newSorts(), contracts: map[*ssa.Function]*Contract{}, byKey: map[string]*Contract{},
		elabSrc: map[string]string{}, loopCache: map[*ssa.Function]*LoopInfo{}, modCache: map[*ssa.Function]*ModSet{},
		implCache: map[string][]*ssa.Function{}, keyInfos: map[string]keyInfo{}, closures: map[string]*closureInfo{}, ifaceLocs: map[string]*Loc{},
		ranges: map[*ssa.Range]*rangeInfo{}, safeOrd: map[string]int{}, tags: map[string]int{}, funcRefs: map[*ssa.Function]int{},
		pkgs: map[string]*ssa.Package{}, floatConsts: map[uint64]bool{}, ifaceContracts: map[*types.Func]*Contract{},
		maxInline: 8, maxInlineInstrs: 150, maxDispatch: 12}
}

// load reads the contract files, elaborates them, and loads the packages (with
// the synthetic files supplied through the overlay) into SSA.
func (eng *Engine) load(mirror string, patterns []string) error {
	specs, err := readContracts(eng.repo, mirror)
	if err != nil {
		return err
	}
	eng.specs = specs
	overlay := map[string][]byte{}
	for dir, ps := range specs {
		src, err := elaborate(eng.repo, ps)
		if err != nil {
			return err
		}
		eng.elabSrc[dir] = src
		overlay[filepath.Join(eng.repo, dir, elabFile)] = []byte(src)
		if ps.source == "mirror" {
			data, _ := os.ReadFile(filepath.Join(mirror, dir, contractFile))
			overlay[filepath.Join(eng.repo, dir, contractFile)] = data
		}
	}
	for p, alt := range eng.extraOverlay {
		data, err := os.ReadFile(alt)
		if err != nil {
			return err
		}
		overlay[p] = data
	}
	cfg := &packages.Config{Mode: packages.LoadAllSyntax, Dir: eng.repo, BuildFlags: []string{"-tags=verif"}, Overlay: overlay,
		Env: append(os.Environ(), "GOFLAGS=-mod=mod", "GOPROXY=off", "GOSUMDB=off", "GOTOOLCHAIN=local")}
	var pkgs []*packages.Package
	for attempt := 0; ; attempt++ {
		pkgs, err = packages.Load(cfg, patterns...)
		if err != nil {
			return err
		}
		nerr := 0
		// errors inside an elaborated contract file: the contract no longer fits
		// the code (e.g. the function's signature changed). Such a contract is
		// set aside and reported as an obligation that cannot be established; the
		// rest of the check still runs.
		badLines := map[string]map[int]bool{} // rel dir -> lines of the elaborated file
		other := 0
		packages.Visit(pkgs, nil, func(p *packages.Package) {
			for _, e := range p.Errors {
				if !strings.HasPrefix(p.PkgPath, modulePath) {
					continue
				}
				nerr++
				pos := e.Pos
				if i := strings.Index(pos, elabFile+":"); i >= 0 {
					dir, _ := filepath.Rel(eng.repo, filepath.Dir(pos[:i+len(elabFile)]))
					var line int
					fmt.Sscanf(pos[i+len(elabFile)+1:], "%d", &line)
					if badLines[dir] == nil {
						badLines[dir] = map[int]bool{}
					}
					badLines[dir][line] = true
					fmt.Fprintf(os.Stderr, "contract does not type-check: %v\n", e)
				} else {
					other++
					fmt.Fprintf(os.Stderr, "load error: %s: %v\n", p.PkgPath, e)
				}
			}
		})
		if nerr == 0 {
			break
		}
		if other > 0 || attempt >= 3 || len(badLines) == 0 {
			return fmt.Errorf("%d load errors (the tree does not compile with the contracts)", nerr)
		}
		dropped := 0
		for dir, lines := range badLines {
			ps := specs[dir]
			if ps == nil {
				continue
			}
			srcLines := strings.Split(eng.elabSrc[dir], "\n")
			badIDs := map[string]bool{}
			for ln := range lines {
				// the enclosing generated function is named verif_<contract id>_...
				for k := ln - 1; k >= 0 && k < len(srcLines); k-- {
					if strings.HasPrefix(srcLines[k], "func verif_c") {
						name := strings.TrimPrefix(srcLines[k], "func verif_")
						if j := strings.IndexByte(name, '_'); j > 0 {
							badIDs[name[:j]] = true
						}
						break
					}
					if strings.HasPrefix(srcLines[k], "func ") {
						break
					}
				}
			}
			var keep []*Contract
			for _, c := range ps.contracts {
				if badIDs[c.ID] {
					eng.misfits = append(eng.misfits, c)
					dropped++
					continue
				}
				keep = append(keep, c)
			}
			ps.contracts = keep
			src, err := elaborate(eng.repo, ps)
			if err != nil {
				return err
			}
			eng.elabSrc[dir] = src
			overlay[filepath.Join(eng.repo, dir, elabFile)] = []byte(src)
		}
		if dropped == 0 {
			return fmt.Errorf("%d load errors in specification code (the tree does not compile with the contracts)", nerr)
		}
	}
	prog, _ := ssautil.AllPackages(pkgs, ssa.GlobalDebug|ssa.InstantiateGenerics)
	prog.Build()
	eng.prog = prog
	eng.fset = prog.Fset
	for _, p := range prog.AllPackages() {
		eng.pkgs[p.Pkg.Path()] = p
		if strings.HasPrefix(p.Pkg.Path(), modulePath) {
			sc := p.Pkg.Scope()
			for _, n := range sc.Names() {
				if tn, ok := sc.Lookup(n).(*types.TypeName); ok && !tn.IsAlias() {
					if _, isI := tn.Type().Underlying().(*types.Interface); !isI {
						if nt, ok := tn.Type().(*types.Named); ok && nt.TypeParams().Len() == 0 {
							eng.allNamed = append(eng.allNamed, tn.Type())
						}
					}
				}
			}
		}
	}
	sort.Slice(eng.allNamed, func(i, j int) bool { return typeKey(eng.allNamed[i]) < typeKey(eng.allNamed[j]) })
	// bind contracts to SSA functions
	for dir, ps := range specs {
		path := modulePath
		if dir != "." {
			path = modulePath + "/" + filepath.ToSlash(dir)
		}
		sp := eng.pkgs[path]
		if sp == nil {
			continue // package not loaded in this run
		}
		for _, g := range ps.levels {
			i := strings.IndexByte(g[0], '.')
			tn, _ := sp.Pkg.Scope().Lookup(g[0][:i]).(*types.TypeName)
			if tn == nil {
				return fmt.Errorf("%s: locklevel: type %s not found", dir, g[0][:i])
			}
			stt, ok := tn.Type().Underlying().(*types.Struct)
			mi := -1
			for k := 0; ok && k < stt.NumFields(); k++ {
				if stt.Field(k).Name() == g[0][i+1:] {
					mi = k
				}
			}
			if mi < 0 {
				return fmt.Errorf("%s: locklevel %s: no such field", dir, g[0])
			}
			lv, _ := strconv.Atoi(g[1])
			if eng.lockLevels == nil {
				eng.lockLevels = map[string]lockLevel{}
			}
			eng.lockLevels[fmt.Sprintf("F|%s|%d", eng.sorts.structKey(tn.Type()), mi)] = lockLevel{level: lv, name: strings.TrimPrefix(path, modulePath+"/") + "." + g[0]}
		}
		for _, g := range ps.guards {
			// guarded Type.field by mu
			i := strings.IndexByte(g[0], '.')
			tn, _ := sp.Pkg.Scope().Lookup(g[0][:i]).(*types.TypeName)
			if tn == nil {
				return fmt.Errorf("%s: guarded: type %s not found", dir, g[0][:i])
			}
			stt, ok := tn.Type().Underlying().(*types.Struct)
			if !ok {
				return fmt.Errorf("%s: guarded: %s is not a struct", dir, g[0][:i])
			}
			fi, mi := -1, -1
			for k := 0; k < stt.NumFields(); k++ {
				if stt.Field(k).Name() == g[0][i+1:] {
					fi = k
				}
				if stt.Field(k).Name() == g[1] {
					mi = k
				}
			}
			if fi < 0 || mi < 0 {
				return fmt.Errorf("%s: guarded %s by %s: no such field", dir, g[0], g[1])
			}
			if eng.guarded == nil {
				eng.guarded = map[string]guardInfo{}
			}
			sk := eng.sorts.structKey(tn.Type())
			eng.guarded[fmt.Sprintf("F|%s|%d", sk, fi)] = guardInfo{muKey: fmt.Sprintf("F|%s|%d", sk, mi), name: g[0]}
		}
		for _, c := range ps.contracts {
			c.PkgPath = path
			if !c.IsLemma {
				if m := eng.lookupIfaceMethod(sp, c.Key); m != nil {
					c.IfaceMethod = m
					eng.ifaceContracts[m] = c
				} else {
					f := eng.lookupFunc(sp, c.Key)
					if f == nil {
						return fmt.Errorf("%s: function %s not found in SSA", dir, c.Key)
					}
					c.Fn = f
					eng.contracts[f] = c
				}
			}
			eng.byKey[c.FullKey()] = c
			bind := func(cl *Clause) error {
				if cl == nil {
					return nil
				}
				f := sp.Func(cl.FnName)
				if f == nil {
					return fmt.Errorf("%s: elaborated function %s missing", dir, cl.FnName)
				}
				cl.Fn = f
				return nil
			}
			var cls []*Clause
			cls = append(cls, c.Requires...)
			cls = append(cls, c.Ensures...)
			cls = append(cls, c.Modifies...)
			cls = append(cls, c.Preserves...)
			cls = append(cls, c.AllocExpr)
			cls = append(cls, c.Def)
			for _, cs := range c.Calls {
				cls = append(cls, cs.Clause)
			}
			for _, o := range c.Olds {
				cls = append(cls, o.Clause)
			}
			for _, ls := range c.Loops {
				cls = append(cls, ls.Invariants...)
				cls = append(cls, ls.Decreases)
			}
			for _, cl := range cls {
				if err := bind(cl); err != nil {
					return err
				}
			}
		}
	}
	eng.initModels()
	return eng.applySweeps()
}

// lookupIfaceMethod resolves a key "<Interface>.<Method>" to the method of a
// named interface type of the package (declared in it, not embedded).
func (eng *Engine) lookupIfaceMethod(sp *ssa.Package, key string) *types.Func {
	i := strings.LastIndex(key, ".")
	if i < 0 || strings.HasPrefix(key, "(") {
		return nil
	}
	tn, ok := sp.Pkg.Scope().Lookup(key[:i]).(*types.TypeName)
	if !ok {
		return nil
	}
	it, ok := tn.Type().Underlying().(*types.Interface)
	if !ok {
		return nil
	}
	for j := 0; j < it.NumExplicitMethods(); j++ {
		if m := it.ExplicitMethod(j); m.Name() == key[i+1:] {
			return m
		}
	}
	return nil
}

func (eng *Engine) lookupFunc(sp *ssa.Package, key string) *ssa.Function {
	if !strings.Contains(key, ".") {
		return sp.Func(key)
	}
	i := strings.LastIndex(key, ".")
	tn, mn := key[:i], key[i+1:]
	ptr := false
	if strings.HasPrefix(tn, "(*") {
		ptr = true
		tn = strings.TrimSuffix(strings.TrimPrefix(tn, "(*"), ")")
	}
	t := sp.Type(tn)
	if t == nil {
		return nil
	}
	var rt types.Type = t.Type()
	if ptr {
		rt = types.NewPointer(rt)
	}
	sel := eng.prog.MethodSets.MethodSet(rt).Lookup(sp.Pkg, mn)
	if sel == nil {
		return nil
	}
	return eng.prog.MethodValue(sel)
}

func (eng *Engine) contractOf(f *ssa.Function) *Contract { return eng.contracts[f] }

func (eng *Engine) typeTag(t types.Type) int {
	k := typeKey(t)
	if n, ok := eng.tags[k]; ok {
		return n
	}
	n := len(eng.tags) + 1
	eng.tags[k] = n
	eng.tagTypes = append(eng.tagTypes, t)
	return n
}

// implementsTerm: does the dynamic type with this tag implement iface?
// Closed world over the types that received a tag so far plus all module types.
func (eng *Engine) implementsTerm(vc *VC, tag string, iface types.Type) string {
	it := iface.Underlying().(*types.Interface)
	if it.NumMethods() == 0 {
		return sNot(sEq(tag, bvConst(0, 32)))
	}
	for _, t := range eng.allNamed {
		for _, cand := range []types.Type{t, types.NewPointer(t)} {
			if types.Implements(cand, it) {
				eng.typeTag(cand)
			}
		}
	}
	var alts []string
	for _, t := range eng.tagTypes {
		if types.Implements(t, it) {
			alts = append(alts, sEq(tag, bvConst(uint64(eng.typeTag(t)), 32)))
		}
	}
	// external dynamic types (e.g. *fmt.wrapError) are represented by pseudo tags
	for name, n := range eng.tags {
		if strings.HasPrefix(name, "pseudo:error:") && types.Implements(types.Universe.Lookup("error").Type(), it) {
			alts = append(alts, sEq(tag, bvConst(uint64(n), 32)))
		}
	}
	return sOr(alts...)
}

func (eng *Engine) pseudoTag(name string) int {
	k := "pseudo:" + name
	if n, ok := eng.tags[k]; ok {
		return n
	}
	n := len(eng.tags) + 1
	eng.tags[k] = n
	eng.tagTypes = append(eng.tagTypes, types.Typ[types.Invalid])
	return n
}

func (eng *Engine) funcRef(f *ssa.Function) string {
	n, ok := eng.funcRefs[f]
	if !ok {
		n = len(eng.funcRefs) + 1
		eng.funcRefs[f] = n
	}
	// function values live in a reserved high range of refs
	return bvConst(uint64(0x7000000000000000)+uint64(n), 64)
}

func (eng *Engine) needFloat() {
	if eng.floatOn {
		return
	}
	eng.floatOn = true
	b := bvSort(64)
	for _, f := range []string{"g_fadd", "g_fsub", "g_fmul", "g_fdiv"} {
		eng.globalDecls = append(eng.globalDecls, fmt.Sprintf("(declare-fun %s (%s %s) %s)", f, b, b, b))
	}
	for _, f := range []string{"g_feq", "g_flt", "g_fle"} {
		eng.globalDecls = append(eng.globalDecls, fmt.Sprintf("(declare-fun %s (%s %s) Bool)", f, b, b))
	}
	for _, f := range []string{"g_fneg", "g_i2f", "g_u2f", "g_f2i", "g_f2u", "g_fceil", "g_ffloor"} {
		eng.globalDecls = append(eng.globalDecls, fmt.Sprintf("(declare-fun %s (%s) %s)", f, b, b))
	}
}

// constGlobal returns the constant a package-level variable of the module holds
// when the loaded program never writes it outside its initialiser and never
// takes its address (every use is a load or the initialising store).
func (eng *Engine) constGlobal(g *ssa.Global) *ssa.Const {
	if eng.constGlobals == nil {
		eng.constGlobals = map[*ssa.Global]*ssa.Const{}
		bad := map[*ssa.Global]bool{}
		inits := map[*ssa.Global]*ssa.Const{}
		nstores := map[*ssa.Global]int{}
		var scan func(f *ssa.Function)
		seen := map[*ssa.Function]bool{}
		scan = func(f *ssa.Function) {
			if f == nil || seen[f] {
				return
			}
			seen[f] = true
			for _, b := range f.Blocks {
				for _, ins := range b.Instrs {
					if _, isDbg := ins.(*ssa.DebugRef); isDbg {
						continue
					}
					for _, op := range ins.Operands(nil) {
						gl, ok := (*op).(*ssa.Global)
						if !ok {
							continue
						}
						switch x := ins.(type) {
						case *ssa.UnOp:
							continue // load
						case *ssa.Store:
							if x.Addr == gl && x.Val != gl {
								nstores[gl]++
								if k, isK := x.Val.(*ssa.Const); isK && f.Name() == "init" && f.Pkg == gl.Pkg {
									inits[gl] = k
								} else {
									bad[gl] = true
								}
								continue
							}
						}
						bad[gl] = true
					}
				}
			}
			for _, a := range f.AnonFuncs {
				scan(a)
			}
		}
		for _, p := range eng.prog.AllPackages() {
			for _, m := range p.Members {
				if f, ok := m.(*ssa.Function); ok {
					scan(f)
				}
			}
		}
		for f := range ssautil.AllFunctions(eng.prog) {
			scan(f)
		}
		for gl, k := range inits {
			if !bad[gl] && nstores[gl] == 1 && gl.Pkg != nil && strings.HasPrefix(gl.Pkg.Pkg.Path(), modulePath) {
				if _, ok := ptrElem(gl.Type()).Underlying().(*types.Basic); ok {
					eng.constGlobals[gl] = k
				}
			}
		}
	}
	return eng.constGlobals[g]
}

// needDecl adds a global declaration once.
func (eng *Engine) needDecl(d string) {
	for _, x := range eng.globalDecls {
		if x == d {
			return
		}
	}
	eng.globalDecls = append(eng.globalDecls, d)
}

func (eng *Engine) needStrBytes() {
	if eng.strBytesOn {
		return
	}
	eng.strBytesOn = true
	eng.globalDecls = append(eng.globalDecls, "(declare-fun g_strbytes (g_Str) (Array (_ BitVec 64) (_ BitVec 8)))")
}

func (eng *Engine) floatConst(f float64) string {
	eng.needFloat()
	return bvConst(math.Float64bits(f), 64)
}

func (eng *Engine) inlineExternal(f *ssa.Function) bool {
	if f.Pkg == nil {
		return false
	}
	switch f.Pkg.Pkg.Path() {
	case "math/bits":
		return false
	}
	return false
}
