package main

import (
	"bytes"
	"context"
	"fmt"
	"os"
	"os/exec"
	"path/filepath"
	"strings"
	"sync"
	"time"
)

type solverSpec struct {
	name string
	args func(file string, timeoutS int) []string
}

var solvers = []solverSpec{
	{"z3-new", func(f string, t int) []string { return []string{"z3-new", fmt.Sprintf("-T:%d", t), f} }},
	// z3 5.1 with integer blasting of bit-vectors: linear length arithmetic
	// (associativity of 64-bit additions) that bit-blasting cannot do in time
	{"z3-new-intblast", func(f string, t int) []string {
		return []string{"z3-new", fmt.Sprintf("-T:%d", t), "smt.bv.solver=2", f}
	}},
	// z3 5.1 with deeper E-matching and without model-based instantiation: goals that
	// need chains of instantiations (set-like specifications with exists/forall)
	{"z3-new-qi", func(f string, t int) []string {
		return []string{"z3-new", fmt.Sprintf("-T:%d", t), "smt.mbqi=false", "smt.qi.eager_threshold=50", f}
	}},
	{"z3", func(f string, t int) []string { return []string{"z3", fmt.Sprintf("-T:%d", t), f} }},
	{"cvc5", func(f string, t int) []string {
		return []string{"cvc5", fmt.Sprintf("--tlimit=%d", t*1000), "--produce-models", f}
	}},
	// cvc5 translating bit-vectors to integers: decides the linear 64-bit length
	// arithmetic of the decoders' consumption contracts, which bit-blasting does
	// not finish. Only its unsat answers are used.
	{"cvc5-bvint", func(f string, t int) []string {
		return []string{"cvc5", fmt.Sprintf("--tlimit=%d", t*1000), "--solve-bv-as-int=sum", f}
	}},
}

// wallFactor: wall-clock backstop as a multiple of the CPU-time limit.
const wallFactor = 8

// portfolio: the solver configurations raced on a query. Integer blasting of
// bit-vectors (smt.bv.solver=2) is used on quantifier-free queries only: on a
// quantified query it answered unsat for a satisfiable formula (a seeded
// change of C29 that the other configurations and a hand argument refute).
func portfolio(script string, short bool) []solverSpec {
	quantified := strings.Contains(script, "(forall ") || strings.Contains(script, "(exists ")
	var res []solverSpec
	for _, sp := range solvers {
		if sp.name == "z3-new-intblast" {
			// withdrawn altogether: it also answered sat on quantifier-free queries that
			// z3 5.1 (default), z3 4.8.12 and cvc5 all refute (C15, supernetIPv4)
			continue
		}
		if short && sp.name != "z3-new" && sp.name != "z3-new-intblast" && !(quantified && sp.name == "z3-new-qi") {
			continue
		}
		res = append(res, sp)
	}
	return res
}

type solveOut struct {
	solver string
	answer string // sat | unsat | unknown | timeout | error
	out    string
	secs   float64
}

func runSolver(ctx context.Context, sp solverSpec, file string, timeoutS int) solveOut {
	// The time limit is CPU time of the solver process (ulimit -t), so that an
	// obligation that discharges on an idle machine also discharges on a loaded
	// one; the solvers' own wall-clock limits are only a generous backstop.
	args := sp.args(file, timeoutS*wallFactor)
	cctx, cancel := context.WithTimeout(ctx, time.Duration(timeoutS*wallFactor+5)*time.Second)
	defer cancel()
	sh := append([]string{"-c", fmt.Sprintf("ulimit -t %d; exec \"$@\"", timeoutS+1), "sh"}, args...)
	cmd := exec.CommandContext(cctx, "sh", sh...)
	var buf bytes.Buffer
	cmd.Stdout = &buf
	cmd.Stderr = &buf
	t0 := time.Now()
	err := cmd.Run()
	secs := time.Since(t0).Seconds()
	out := buf.String()
	ans := "unknown"
	first := ""
	var kept []string
	for _, l := range strings.Split(out, "\n") {
		if strings.HasPrefix(l, "WARNING") {
			continue
		}
		kept = append(kept, l)
		if first == "" && strings.TrimSpace(l) != "" {
			first = strings.TrimSpace(l)
		}
	}
	out = strings.Join(kept, "\n")
	hasErr := false
	for _, l := range strings.Split(out, "\n") {
		if strings.HasPrefix(strings.TrimSpace(l), "(error") {
			// z3 4.8.12 complains about get-value/get-model after unsat: that is not an input error
			if strings.Contains(l, "model is not available") {
				continue
			}
			hasErr = true
		}
	}
	if err != nil && first != "sat" && first != "unsat" {
		if ee, ok := err.(*exec.ExitError); ok && strings.HasPrefix(ee.Error(), "signal:") {
			hasErr = false
			first = "timeout"
		}
	}
	if hasErr && (strings.Contains(out, "interrupted by timeout") || strings.Contains(out, "timed out") || cctx.Err() != nil) {
		hasErr = false
		first = "timeout"
	}
	switch {
	case hasErr:
		ans = "error"
	case first == "unsat":
		ans = "unsat"
	case first == "sat":
		ans = "sat"
	case first == "timeout" || cctx.Err() != nil:
		ans = "timeout"
	case first == "unknown":
		ans = "unknown"
	default:
		if err != nil {
			ans = "error"
		}
	}
	return solveOut{solver: sp.name, answer: ans, out: out, secs: secs}
}

// race runs the given solvers concurrently and returns the first definitive answer.
func race(file string, sps []solverSpec, timeoutS int) (solveOut, []solveOut) {
	ctx, cancel := context.WithCancel(context.Background())
	defer cancel()
	ch := make(chan solveOut, len(sps))
	for _, sp := range sps {
		go func(sp solverSpec) { ch <- runSolver(ctx, sp, file, timeoutS) }(sp)
	}
	var all []solveOut
	var best solveOut
	best.answer = "unknown"
	for range sps {
		o := <-ch
		if o.solver == "cvc5-bvint" && o.answer == "error" {
			o.answer = "unknown" // the integer translation does not cover every query
		}
		if o.answer == "sat" && (o.solver == "cvc5-bvint" || o.solver == "z3-new-qi") {
			// these configurations are used to refute only: a model from the integer
			// translation, or from a run without model-based instantiation, is not
			// taken as a counterexample
			o.answer = "unknown"
		}
		all = append(all, o)
		if o.answer == "sat" || o.answer == "unsat" {
			cancel()
			return o, all
		}
		if best.answer == "unknown" || o.answer == "error" {
			best = o
		}
	}
	return best, all
}

type solveCfg struct {
	tier    string
	workdir string
	quickT  int
	fullT   int
	jobs    int
}

func solveObligations(obls []*Obligation, cfg solveCfg) {
	os.MkdirAll(cfg.workdir, 0o755)
	var wg sync.WaitGroup
	sem := make(chan struct{}, cfg.jobs)
	for i, o := range obls {
		wg.Add(1)
		sem <- struct{}{}
		go func(i int, o *Obligation) {
			defer wg.Done()
			defer func() { <-sem }()
			solveOne(i, o, cfg)
		}(i, o)
	}
	wg.Wait()
}

func solveOne(i int, o *Obligation, cfg solveCfg) {
	file := filepath.Join(cfg.workdir, fmt.Sprintf("o%04d.smt2", i))
	script := o.vc.script(o, false)
	os.WriteFile(file, []byte(script), 0o644)
	t0 := time.Now()
	var all []solveOut
	var r solveOut
	// stage 0: without the quantified library facts (append/copy contents). Fewer
	// assumptions: an unsat answer here is a valid discharge and is much faster.
	if !o.ExpectSat {
		qfile := strings.TrimSuffix(file, ".smt2") + ".sliced.smt2"
		os.WriteFile(qfile, []byte(sliceScript(script)), 0o644)
		r0 := runSolver(context.Background(), solvers[0], qfile, cfg.quickT)
		r0.solver = "z3-new/sliced"
		all = append(all, r0)
		os.Remove(qfile)
		if r0.answer == "unsat" {
			o.TimeS = time.Since(t0).Seconds()
			o.Solver = r0.solver
			o.Queries = append(o.Queries, fmt.Sprintf("%s:%s:%.2fs", r0.solver, r0.answer, r0.secs))
			o.Status = "discharged"
			if os.Getenv("GOVC_KEEPALL") == "" {
				os.Remove(file)
			}
			return
		}
	}
	// stage 1: z3-new (bit-blasting and integer-blasting), short
	if o.ExpectSat {
		r = runSolver(context.Background(), solvers[0], file, cfg.quickT)
		all = append(all, r)
	} else {
		var a1 []solveOut
		r, a1 = race(file, portfolio(script, true), cfg.quickT)
		all = append(all, a1...)
	}
	if r.answer != "sat" && r.answer != "unsat" && !(o.ExpectSat && cfg.tier != "thorough") {
		ft := cfg.fullT
		if o.ExpectSat && ft > 30 {
			ft = 30 // vacuity guards: satisfiability is looked for briefly, then without the quantified facts
		}
		r2, a2 := race(file, portfolio(script, false), ft)
		all = append(all, a2...)
		r = r2
	}
	o.TimeS = time.Since(t0).Seconds()
	o.Solver = r.solver
	for _, a := range all {
		o.Queries = append(o.Queries, fmt.Sprintf("%s:%s:%.2fs", a.solver, a.answer, a.secs))
	}
	want, bad := "unsat", "sat"
	if o.ExpectSat {
		want, bad = "sat", "unsat"
	}
	switch r.answer {
	case want:
		o.Status = "discharged"
		if cfg.tier == "thorough" && !o.ExpectSat {
			// second opinion from a different solver binary
			for _, sp := range solvers {
				if sp.name == r.solver || strings.HasPrefix(sp.name, "z3-new") && strings.HasPrefix(r.solver, "z3-new") || strings.HasPrefix(sp.name, "cvc5") && strings.HasPrefix(r.solver, "cvc5") {
					continue // same binary
				}
				// (a second opinion is sought for at most 20 CPU-seconds per solver: the
				// obligation is already discharged; agreement is recorded when found)
				r2 := runSolver(context.Background(), sp, file, 20)
				o.Queries = append(o.Queries, fmt.Sprintf("%s:%s:%.2fs", r2.solver, r2.answer, r2.secs))
				if r2.answer == want {
					o.Solver = r.solver + "+" + r2.solver
					break
				}
				if r2.answer == bad {
					o.Status = "error"
					o.Output = "solvers disagree: " + r.solver + "=" + r.answer + " " + r2.solver + "=" + r2.answer
					break
				}
			}
		}
	case bad:
		o.Status = "violated"
		o.Output = r.out
		if !o.ExpectSat {
			getModel(file, script, o, cfg)
		}
	case "error":
		o.Status = "error"
		o.Output = truncate(r.out, 2000)
	default:
		o.Status = "unknown"
		o.Output = r.answer + " " + truncate(r.out, 500)
		// Quantified library facts (append/copy contents) keep the solvers from
		// answering sat. Look for a candidate counterexample with those facts
		// dropped (weaker assumptions); only a replay on the real code can
		// confirm such a candidate.
		if o.ExpectSat && strings.Contains(script, "(assert (forall") {
			// vacuity guards (pre-sat, cover): satisfiability is checked without the
			// quantified library facts, which cannot make the path infeasible
			var b strings.Builder
			for _, l := range strings.Split(script, "\n") {
				if isQuantAssert(l) {
					continue
				}
				b.WriteString(l)
				b.WriteString("\n")
			}
			wfile := strings.TrimSuffix(file, ".smt2") + ".weak.smt2"
			os.WriteFile(wfile, []byte(b.String()), 0o644)
			rw := runSolver(context.Background(), solvers[0], wfile, cfg.fullT)
			o.Queries = append(o.Queries, fmt.Sprintf("noquant/%s:%s:%.2fs", rw.solver, rw.answer, rw.secs))
			os.Remove(wfile)
			if rw.answer == "sat" {
				o.Status = "discharged"
				o.Solver = "z3-new/noquant"
			}
		}
		if !o.ExpectSat && strings.Contains(script, "(assert (forall") {
			var b strings.Builder
			for _, l := range strings.Split(script, "\n") {
				if isQuantAssert(l) {
					continue
				}
				b.WriteString(l)
				b.WriteString("\n")
			}
			wfile := strings.TrimSuffix(file, ".smt2") + ".weak.smt2"
			os.WriteFile(wfile, []byte(b.String()), 0o644)
			rw := runSolver(context.Background(), solvers[0], wfile, cfg.fullT)
			o.Queries = append(o.Queries, fmt.Sprintf("weak/%s:%s:%.2fs", rw.solver, rw.answer, rw.secs))
			if rw.answer == "sat" {
				o.Status = "violated"
				o.Weak = true
				o.Output = "candidate counterexample found with the quantified library facts dropped"
				// its input values are worth a replay on the real code
				getModel(wfile, b.String(), o, cfg)
			}
			os.Remove(wfile)
		}
	}
	if o.Status == "discharged" && os.Getenv("GOVC_KEEPALL") == "" {
		os.Remove(file)
	}
}

// getModel re-runs the query with model production and reads the values of the
// observation terms.
func getModel(file, script string, o *Obligation, cfg solveCfg) {
	terms := o.vc.observationTerms()
	if len(terms) == 0 {
		return
	}
	var b strings.Builder
	b.WriteString("(set-option :produce-models true)\n")
	b.WriteString(script)
	for _, t := range terms {
		b.WriteString("(get-value (" + t + "))\n")
	}
	mfile := strings.TrimSuffix(file, ".smt2") + ".model.smt2"
	os.WriteFile(mfile, []byte(b.String()), 0o644)
	for _, sp := range []solverSpec{solvers[0]} {
		r := runSolver(context.Background(), sp, mfile, cfg.fullT)
		if r.answer != "sat" {
			continue
		}
		o.Model = parseValues(r.out, terms)
		if len(o.Model) > 0 {
			return
		}
	}
}

// parseValues reads the answers of consecutive (get-value (t)) commands.
func parseValues(out string, terms []string) map[string]string {
	res := map[string]string{}
	// drop the first line (sat)
	i := strings.Index(out, "\n")
	if i < 0 {
		return res
	}
	rest := out[i+1:]
	pos := 0
	for _, t := range terms {
		// next s-expression
		for pos < len(rest) && rest[pos] != '(' {
			pos++
		}
		if pos >= len(rest) {
			break
		}
		end := matchClose(rest, pos)
		if end < 0 {
			break
		}
		sx := rest[pos : end+1] // ((term value))
		pos = end + 1
		inner := strings.TrimSpace(sx[1 : len(sx)-1])
		if !strings.HasPrefix(inner, "(") {
			continue
		}
		inner = strings.TrimSpace(inner[1 : len(inner)-1])
		// value is the last s-expression / atom of inner
		val := lastSexp(inner)
		res[t] = val
	}
	return res
}

func lastSexp(s string) string {
	s = strings.TrimSpace(s)
	if strings.HasSuffix(s, ")") {
		depth := 0
		for i := len(s) - 1; i >= 0; i-- {
			switch s[i] {
			case ')':
				depth++
			case '(':
				depth--
				if depth == 0 {
					return s[i:]
				}
			}
		}
		return s
	}
	i := strings.LastIndexAny(s, " \n\t")
	return s[i+1:]
}
