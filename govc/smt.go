package main

import (
	"fmt"
	"go/types"
	"sort"
	"strings"
)

// ---------------------------------------------------------------------------
// SMT text helpers. Everything is plain SMT-LIB 2.6 text; terms are strings.
// Program integers are bit-vectors of their exact Go width.
// ---------------------------------------------------------------------------

const refSort = "(_ BitVec 64)"

func bvSort(n int) string { return fmt.Sprintf("(_ BitVec %d)", n) }

func bvConst(v uint64, n int) string {
	if n < 64 {
		v &= (uint64(1) << uint(n)) - 1
	}
	return fmt.Sprintf("(_ bv%d %d)", v, n)
}

func bvConstBig(dec string, n int) string { return fmt.Sprintf("(_ bv%s %d)", dec, n) }

func sAnd(xs ...string) string {
	var ys []string
	for _, x := range xs {
		if x == "true" || x == "" {
			continue
		}
		if x == "false" {
			return "false"
		}
		ys = append(ys, x)
	}
	switch len(ys) {
	case 0:
		return "true"
	case 1:
		return ys[0]
	}
	return "(and " + strings.Join(ys, " ") + ")"
}

func sOr(xs ...string) string {
	var ys []string
	for _, x := range xs {
		if x == "false" || x == "" {
			continue
		}
		if x == "true" {
			return "true"
		}
		ys = append(ys, x)
	}
	switch len(ys) {
	case 0:
		return "false"
	case 1:
		return ys[0]
	}
	return "(or " + strings.Join(ys, " ") + ")"
}

func sNot(x string) string {
	switch x {
	case "true":
		return "false"
	case "false":
		return "true"
	}
	if strings.HasPrefix(x, "(not ") && strings.HasSuffix(x, ")") && balanced(x[5:len(x)-1]) {
		return x[5 : len(x)-1]
	}
	return "(not " + x + ")"
}

func balanced(s string) bool {
	d := 0
	for i, c := range s {
		switch c {
		case '(':
			d++
		case ')':
			d--
			if d < 0 {
				return false
			}
			if d == 0 && i != len(s)-1 {
				return false
			}
		case ' ':
			if d == 0 {
				return false
			}
		}
	}
	return d == 0
}

func sImp(a, b string) string {
	if a == "true" {
		return b
	}
	if a == "false" || b == "true" {
		return "true"
	}
	return "(=> " + a + " " + b + ")"
}

func sIte(c, a, b string) string {
	if c == "true" {
		return a
	}
	if c == "false" {
		return b
	}
	if a == b {
		return a
	}
	return "(ite " + c + " " + a + " " + b + ")"
}

func sEq(a, b string) string {
	if a == b {
		return "true"
	}
	return "(= " + a + " " + b + ")"
}

func app(f string, args ...string) string { return "(" + f + " " + strings.Join(args, " ") + ")" }

// mangle turns an arbitrary Go type/func string into an SMT-safe identifier.
func mangle(s string) string {
	var b strings.Builder
	for _, c := range s {
		switch {
		case c >= 'a' && c <= 'z', c >= 'A' && c <= 'Z', c >= '0' && c <= '9', c == '_':
			b.WriteRune(c)
		case c == '.':
			b.WriteString("_")
		case c == '*':
			b.WriteString("P")
		case c == '[':
			b.WriteString("L")
		case c == ']':
			b.WriteString("J")
		case c == '/':
			b.WriteString("_")
		default:
			b.WriteString(fmt.Sprintf("x%x", c))
		}
	}
	return b.String()
}

// ---------------------------------------------------------------------------
// Sorts: mapping of Go types to SMT sorts, with on-demand datatype declaration.
// ---------------------------------------------------------------------------

type Sorts struct {
	decls   []string          // datatype / sort declarations, in dependency order
	structs map[string]string // canonical struct type string -> sort name
	fields  map[string][]string
	qual    types.Qualifier
	short   map[string]string
	nshort  map[string]int
}

func newSorts() *Sorts {
	s := &Sorts{structs: map[string]string{}, fields: map[string][]string{}, short: map[string]string{}, nshort: map[string]int{}}
	s.decls = append(s.decls,
		"(declare-sort g_Str 0)",
		"(declare-fun g_strlen (g_Str) (_ BitVec 64))",
		"(declare-fun g_strat (g_Str (_ BitVec 64)) (_ BitVec 8))",
		"(declare-fun g_strcat (g_Str g_Str) g_Str)",
		"(declare-fun g_strsub (g_Str (_ BitVec 64) (_ BitVec 64)) g_Str)",
		"(declare-fun g_strlt (g_Str g_Str) Bool)",
		"(declare-datatypes ((g_Slice 0)) (((g_mkslice (g_sarr (_ BitVec 64)) (g_soff (_ BitVec 64)) (g_slen (_ BitVec 64)) (g_scap (_ BitVec 64))))))",
		"(declare-datatypes ((g_Iface 0)) (((g_mkiface (g_itag (_ BitVec 32)) (g_iref (_ BitVec 64))))))",
	)
	return s
}

func typeKey(t types.Type) string {
	s := types.TypeString(t, func(p *types.Package) string { return p.Path() })
	// byte and rune are aliases of uint8 and int32: one heap per underlying type
	return canonBasic(s)
}

func canonBasic(s string) string {
	if !strings.Contains(s, "byte") && !strings.Contains(s, "rune") {
		return s
	}
	var b strings.Builder
	isId := func(c byte) bool {
		return c == '_' || c >= 'a' && c <= 'z' || c >= 'A' && c <= 'Z' || c >= '0' && c <= '9'
	}
	for i := 0; i < len(s); {
		if isId(s[i]) && (i == 0 || !isId(s[i-1]) && s[i-1] != '.' && s[i-1] != '/') {
			j := i
			for j < len(s) && isId(s[j]) {
				j++
			}
			w := s[i:j]
			if j < len(s) && (s[j] == '.' || s[j] == '/') {
				b.WriteString(w)
			} else if w == "byte" {
				b.WriteString("uint8")
			} else if w == "rune" {
				b.WriteString("int32")
			} else {
				b.WriteString(w)
			}
			i = j
			continue
		}
		b.WriteByte(s[i])
		i++
	}
	return b.String()
}

// shortName gives a readable unique identifier for a type key.
func (s *Sorts) shortName(key string) string {
	if n, ok := s.short[key]; ok {
		return n
	}
	k := key
	k = strings.ReplaceAll(k, "github.com/bio-routing/bio-rd/", "")
	m := mangle(k)
	if len(m) > 60 {
		m = m[:60]
	}
	s.nshort[m]++
	if c := s.nshort[m]; c > 1 {
		m = fmt.Sprintf("%s_%d", m, c)
	}
	s.short[key] = m
	return m
}

func isStruct(t types.Type) (*types.Struct, bool) {
	st, ok := t.Underlying().(*types.Struct)
	return st, ok
}

func intWidth(b *types.Basic) (int, bool, bool) { // width, signed, ok
	switch b.Kind() {
	case types.Int8:
		return 8, true, true
	case types.Int16:
		return 16, true, true
	case types.Int32:
		return 32, true, true
	case types.Int64, types.Int, types.UntypedInt, types.UntypedRune:
		return 64, true, true
	case types.Uint8:
		return 8, false, true
	case types.Uint16:
		return 16, false, true
	case types.Uint32:
		return 32, false, true
	case types.Uint64, types.Uint, types.Uintptr:
		return 64, false, true
	}
	return 0, false, false
}

func isIntType(t types.Type) (int, bool, bool) {
	if b, ok := t.Underlying().(*types.Basic); ok {
		return intWidth(b)
	}
	return 0, false, false
}

func isString(t types.Type) bool {
	b, ok := t.Underlying().(*types.Basic)
	return ok && b.Info()&types.IsString != 0
}

func isBool(t types.Type) bool {
	b, ok := t.Underlying().(*types.Basic)
	return ok && b.Info()&types.IsBoolean != 0
}

func isFloat(t types.Type) bool {
	b, ok := t.Underlying().(*types.Basic)
	return ok && b.Info()&types.IsFloat != 0
}

func isIface(t types.Type) bool {
	_, ok := t.Underlying().(*types.Interface)
	return ok
}

// sortOf returns the SMT sort of values of Go type t.
func (s *Sorts) sortOf(t types.Type) string {
	switch u := t.Underlying().(type) {
	case *types.Basic:
		if u.Info()&types.IsBoolean != 0 {
			return "Bool"
		}
		if w, _, ok := intWidth(u); ok {
			return bvSort(w)
		}
		if u.Info()&types.IsString != 0 {
			return "g_Str"
		}
		if u.Info()&types.IsFloat != 0 {
			return bvSort(64)
		}
		if u.Kind() == types.UnsafePointer {
			return refSort
		}
		if u.Kind() == types.UntypedNil {
			return refSort
		}
		panic(unsupported("basic type " + u.String()))
	case *types.Pointer, *types.Map, *types.Chan, *types.Signature:
		return refSort
	case *types.Slice:
		return "g_Slice"
	case *types.Interface:
		return "g_Iface"
	case *types.Array:
		return "(Array (_ BitVec 64) " + s.sortOf(u.Elem()) + ")"
	case *types.Struct:
		return s.structSort(t)
	case *types.Tuple:
		panic(unsupported("tuple sort"))
	}
	panic(unsupported("sortOf " + t.String()))
}

func (s *Sorts) structKey(t types.Type) string {
	if n, ok := t.(*types.Named); ok {
		return typeKey(n)
	}
	if a, ok := t.(*types.Alias); ok {
		return s.structKey(types.Unalias(a))
	}
	return typeKey(t.Underlying())
}

func (s *Sorts) structSort(t types.Type) string {
	key := s.structKey(t)
	if n, ok := s.structs[key]; ok {
		return n
	}
	st := t.Underlying().(*types.Struct)
	name := "g_S_" + s.shortName(key)
	s.structs[key] = name // (recursion through pointers is fine: pointers are refs)
	var fs []string
	var sel []string
	for i := 0; i < st.NumFields(); i++ {
		fn := fmt.Sprintf("%s_f%d", name, i)
		sel = append(sel, fn)
		fs = append(fs, fmt.Sprintf("(%s %s)", fn, s.sortOf(st.Field(i).Type())))
	}
	s.fields[name] = sel
	s.decls = append(s.decls, fmt.Sprintf("(declare-datatypes ((%s 0)) (((mk_%s %s))))", name, name, strings.Join(fs, " ")))
	return name
}

func (s *Sorts) mkStruct(t types.Type, fieldTerms []string) string {
	name := s.structSort(t)
	if len(fieldTerms) == 0 {
		return "mk_" + name
	}
	return "(mk_" + name + " " + strings.Join(fieldTerms, " ") + ")"
}

func (s *Sorts) selField(t types.Type, i int, term string) string {
	name := s.structSort(t)
	return fmt.Sprintf("(%s_f%d %s)", name, i, term)
}

// updField returns term with field i replaced by v.
func (s *Sorts) updField(t types.Type, i int, term, v string) string {
	st := t.Underlying().(*types.Struct)
	fs := make([]string, st.NumFields())
	for j := range fs {
		if j == i {
			fs[j] = v
		} else {
			fs[j] = s.selField(t, j, term)
		}
	}
	return s.mkStruct(t, fs)
}

func (s *Sorts) zero(t types.Type) string {
	switch u := t.Underlying().(type) {
	case *types.Basic:
		if u.Info()&types.IsBoolean != 0 {
			return "false"
		}
		if w, _, ok := intWidth(u); ok {
			return bvConst(0, w)
		}
		if u.Info()&types.IsString != 0 {
			return "g_emptystr"
		}
		if u.Info()&types.IsFloat != 0 {
			return bvConst(0, 64)
		}
		return bvConst(0, 64)
	case *types.Pointer, *types.Map, *types.Chan, *types.Signature:
		return bvConst(0, 64)
	case *types.Slice:
		return "(g_mkslice (_ bv0 64) (_ bv0 64) (_ bv0 64) (_ bv0 64))"
	case *types.Interface:
		return "(g_mkiface (_ bv0 32) (_ bv0 64))"
	case *types.Array:
		return "((as const " + s.sortOf(t) + ") " + s.zero(u.Elem()) + ")"
	case *types.Struct:
		fs := make([]string, u.NumFields())
		for i := range fs {
			fs[i] = s.zero(u.Field(i).Type())
		}
		return s.mkStruct(t, fs)
	}
	panic(unsupported("zero of " + t.String()))
}

func sortedKeys[V any](m map[string]V) []string {
	var ks []string
	for k := range m {
		ks = append(ks, k)
	}
	sort.Strings(ks)
	return ks
}

type unsupportedErr struct{ msg string }

func (u unsupportedErr) Error() string { return "unsupported: " + u.msg }
func unsupported(msg string) unsupportedErr { return unsupportedErr{msg} }
