package main

import (
	"fmt"
	"go/types"
	"strings"
	"time"
)

// ---------------------------------------------------------------------------
// Exhaustive contracts: for a loop-free function whose parameters range over a
// small finite domain (uint8, bool, uint16 — at most 2^20 combinations) the
// contract is decided by running the REAL function on every input and
// evaluating the elaborated clauses ("back end: enumeration"). This is a
// complete proof for that function, not a bounded stand-in; it is used where
// the SMT route cannot see the code (floating point in net.BytesInAddr).
// ---------------------------------------------------------------------------

func domainSize(t types.Type) (uint64, string, bool) {
	b, ok := t.Underlying().(*types.Basic)
	if !ok {
		return 0, "", false
	}
	switch b.Kind() {
	case types.Bool:
		return 2, "bool", true
	case types.Uint8:
		return 256, "uint8", true
	case types.Int8:
		return 256, "int8", true
	case types.Uint16:
		return 65536, "uint16", true
	}
	return 0, "", false
}

func (eng *Engine) verifyExhaustive(ct *Contract, o runOpts, work string) *Obligation {
	vc := eng.newVC(ct.Fn, ct.FullKey())
	ob := &Obligation{Name: "enum:" + ct.FullKey(), Kind: "enum", Fn: ct.FullKey(), vc: vc, Props: ct.Props, Clause: "all inputs enumerated on the real code"}
	fn := ct.Fn
	total := uint64(1)
	var loops, closes, args []string
	for i, p := range fn.Params {
		n, tn, ok := domainSize(p.Type())
		if !ok {
			ob.Status = "error"
			ob.Output = "exhaustive contract on a parameter of type " + p.Type().String()
			return ob
		}
		total *= n
		v := fmt.Sprintf("a%d", i)
		args = append(args, v)
		tname := types.TypeString(p.Type(), func(pk *types.Package) string {
			if pk == fn.Pkg.Pkg {
				return ""
			}
			return pk.Name()
		})
		switch tn {
		case "bool":
			loops = append(loops, fmt.Sprintf("for _, %s := range []%s{false, true} {", v, tname))
		default:
			loops = append(loops, fmt.Sprintf("for x%d := 0; x%d < %d; x%d++ { %s := %s(x%d)", i, i, n, i, v, tname, i))
		}
		closes = append(closes, "}")
	}
	if total > 1<<20 {
		ob.Status = "error"
		ob.Output = "domain too large for enumeration"
		return ob
	}
	sp := eng.pkgs[ct.PkgPath]
	var b strings.Builder
	b.WriteString("package " + sp.Pkg.Name() + "\n\nimport (\n\t\"fmt\"\n\t\"testing\"\n)\n\nfunc TestVerifReplay(t *testing.T) {\n\tn, bad := 0, 0\n")
	for _, l := range loops {
		b.WriteString("\t" + l + "\n")
	}
	al := strings.Join(args, ", ")
	var pre []string
	for _, cl := range ct.Requires {
		pre = append(pre, fmt.Sprintf("%s(%s)", cl.FnName, al))
	}
	if len(pre) > 0 {
		b.WriteString("\tif !(" + strings.Join(pre, " && ") + ") { continue }\n")
	}
	call := fmt.Sprintf("%s(%s)", fn.Name(), al)
	nres := fn.Signature.Results().Len()
	var rs []string
	for i := 0; i < nres; i++ {
		rs = append(rs, fmt.Sprintf("r%d", i))
	}
	b.WriteString("\tn++\n\tfunc() {\n\t\tdefer func() { if r := recover(); r != nil { bad++; fmt.Printf(\"VERIF-ENUM panic at %v: %v\\n\", []interface{}{" + al + "}, r) } }()\n")
	if nres > 0 {
		b.WriteString("\t\t" + strings.Join(rs, ", ") + " := " + call + "\n")
	} else {
		b.WriteString("\t\t" + call + "\n")
	}
	all := al
	if nres > 0 {
		all += ", " + strings.Join(rs, ", ")
	}
	for k, cl := range ct.Ensures {
		fmt.Fprintf(&b, "\t\tif !%s(%s) { bad++; fmt.Printf(\"VERIF-ENUM post%d fails at %%v\\n\", []interface{}{%s}) }\n", cl.FnName, all, k, al)
	}
	b.WriteString("\t}()\n")
	for _, c := range closes {
		b.WriteString("\t" + c + "\n")
	}
	b.WriteString("\tfmt.Printf(\"VERIF-ENUM evaluated=%d bad=%d\\n\", n, bad)\n}\n")
	t0 := time.Now()
	_, out := runReplay(eng, o, ct, b.String(), work, sanitize("enum_"+ct.Key))
	ob.TimeS = time.Since(t0).Seconds()
	ob.Solver = "enumeration(go test)"
	ob.Output = out
	ob.Status = "unknown"
	for _, l := range strings.Split(out, "\n") {
		l = strings.TrimSpace(l)
		if strings.HasPrefix(l, "VERIF-ENUM evaluated=") {
			var n, bad int
			fmt.Sscanf(l, "VERIF-ENUM evaluated=%d bad=%d", &n, &bad)
			ob.Queries = append(ob.Queries, l)
			if bad == 0 && n > 0 {
				ob.Status = "discharged"
			} else {
				ob.Status = "violated"
			}
		}
	}
	return ob
}
