package main

import (
	"fmt"
	"go/token"
	"go/types"
	"sort"
	"strings"

	"golang.org/x/tools/go/ssa"
)

// ---------------------------------------------------------------------------
// Loop structure of a function (natural loops from dominator back edges)
// ---------------------------------------------------------------------------

type Loop struct {
	header  *ssa.BasicBlock
	body    map[int]bool // block indices (incl. header)
	ordinal int          // source order ordinal among the function's loops
	pos     token.Pos
	mods    *ModSet
}

type LoopInfo struct {
	fn      *ssa.Function
	rpo     []*ssa.BasicBlock
	headers map[int]*Loop
	list    []*Loop
}

func (li *LoopInfo) isBack(from, to *ssa.BasicBlock) bool { return to.Dominates(from) }

func (eng *Engine) loopInfo(fn *ssa.Function) *LoopInfo {
	if li, ok := eng.loopCache[fn]; ok {
		return li
	}
	li := &LoopInfo{fn: fn, headers: map[int]*Loop{}}
	// reverse postorder over forward edges
	seen := map[int]bool{}
	var post []*ssa.BasicBlock
	var dfs func(b *ssa.BasicBlock)
	dfs = func(b *ssa.BasicBlock) {
		seen[b.Index] = true
		for _, s := range b.Succs {
			if s.Dominates(b) { // back edge
				continue
			}
			if !seen[s.Index] {
				dfs(s)
			}
		}
		post = append(post, b)
	}
	if len(fn.Blocks) > 0 {
		dfs(fn.Blocks[0])
	}
	for i := len(post) - 1; i >= 0; i-- {
		li.rpo = append(li.rpo, post[i])
	}
	// the recover block (if any) is not reachable by normal edges; ignored
	for _, b := range fn.Blocks {
		for _, s := range b.Succs {
			if s.Dominates(b) {
				l := li.headers[s.Index]
				if l == nil {
					l = &Loop{header: s, body: map[int]bool{s.Index: true}}
					li.headers[s.Index] = l
					li.list = append(li.list, l)
				}
				// collect natural loop body
				var work []*ssa.BasicBlock
				if !l.body[b.Index] {
					l.body[b.Index] = true
					work = append(work, b)
				}
				for len(work) > 0 {
					n := work[len(work)-1]
					work = work[:len(work)-1]
					for _, p := range n.Preds {
						if !l.body[p.Index] {
							l.body[p.Index] = true
							work = append(work, p)
						}
					}
				}
			}
		}
	}
	// a goto into the middle of a loop would make the flow graph irreducible; the
	// RPO processing would then miss states. Detect: every non-back edge must go
	// forward in RPO (always true by construction) and every retreating edge
	// must be a dominator back edge.
	idx := map[int]int{}
	for i, b := range li.rpo {
		idx[b.Index] = i
	}
	for _, b := range li.rpo {
		for _, s := range b.Succs {
			if idx[s.Index] <= idx[b.Index] && !s.Dominates(b) {
				li.rpo = nil
				eng.loopCache[fn] = li
				return li
			}
		}
	}
	// ordinal by source position of the loop header's first positioned instruction
	for _, l := range li.list {
		l.pos = loopPos(l)
	}
	sort.Slice(li.list, func(i, j int) bool { return li.list[i].pos < li.list[j].pos })
	for i, l := range li.list {
		l.ordinal = i
	}
	eng.loopCache[fn] = li
	return li
}

func loopPos(l *Loop) token.Pos {
	// smallest valid position of any instruction in the loop body
	var best token.Pos
	for _, b := range l.header.Parent().Blocks {
		if !l.body[b.Index] {
			continue
		}
		for _, ins := range b.Instrs {
			if _, ok := ins.(*ssa.DebugRef); ok {
				continue
			}
			p := ins.Pos()
			if p.IsValid() && (best == 0 || p < best) {
				best = p
			}
		}
	}
	return best
}

// ---------------------------------------------------------------------------
// Loop cut
// ---------------------------------------------------------------------------

// localAt resolves a source-level local variable name to its SSA value at the
// header of loop l: a phi of the header named after it, otherwise the unique
// dominating definition recorded by a DebugRef.
func (fr *Frame) localAt(l *Loop, name string) (ssa.Value, bool) {
	for _, ins := range l.header.Instrs {
		if phi, ok := ins.(*ssa.Phi); ok && phi.Comment == name {
			return phi, true
		}
	}
	for _, p := range fr.fn.Params {
		if p.Name() == name {
			return p, true
		}
	}
	var best ssa.Value
	var bestBlock *ssa.BasicBlock
	var bestIdx int
	for _, b := range fr.fn.Blocks {
		for i, ins := range b.Instrs {
			d, ok := ins.(*ssa.DebugRef)
			if !ok || d.IsAddr {
				continue
			}
			obj := d.Object()
			if obj == nil || obj.Name() != name {
				continue
			}
			if _, isVar := obj.(*types.Var); !isVar {
				continue
			}
			if !(b.Dominates(l.header) && b != l.header) {
				// also accept definitions inside the header-dominated region that are
				// not part of the loop? no: only dominating definitions
				continue
			}
			if best == nil || bestBlock.Dominates(b) && (bestBlock != b || i > bestIdx) {
				best, bestBlock, bestIdx = d.X, b, i
			}
		}
	}
	if best != nil {
		return best, true
	}
	// address-taken local: find its Alloc
	for _, b := range fr.fn.Blocks {
		for _, ins := range b.Instrs {
			if a, ok := ins.(*ssa.Alloc); ok && a.Comment == name {
				return a, true
			}
		}
	}
	return nil, false
}

// localAtBlock resolves a source-level local variable name to the SSA value it
// has when block b is entered... more precisely: the latest definition recorded
// by a DebugRef in b itself or in a block that dominates b.
func (fr *Frame) localAtBlock(b *ssa.BasicBlock, name string) (ssa.Value, bool) {
	return fr.localBefore(b, len(b.Instrs), name)
}

// localBefore is localAtBlock restricted, within b itself, to the definitions
// recorded before instruction index limit (the value the variable has when that
// instruction executes).
func (fr *Frame) localBefore(b *ssa.BasicBlock, limit int, name string) (ssa.Value, bool) {
	for _, p := range fr.fn.Params {
		if p.Name() == name {
			return p, true
		}
	}
	var best ssa.Value
	var bestBlock *ssa.BasicBlock
	bestIdx := -1
	for _, blk := range fr.fn.Blocks {
		if !blk.Dominates(b) {
			continue
		}
		for i, ins := range blk.Instrs {
			if blk == b && i >= limit {
				break
			}
			if phi, ok := ins.(*ssa.Phi); ok && phi.Comment == name {
				// the variable's value where branches (or a loop) that assign it meet
				if best == nil || bestBlock.Dominates(blk) && (bestBlock != blk || i > bestIdx) {
					best, bestBlock, bestIdx = phi, blk, i
				}
				continue
			}
			d, ok := ins.(*ssa.DebugRef)
			if !ok || d.IsAddr {
				continue
			}
			obj := d.Object()
			if obj == nil || obj.Name() != name {
				continue
			}
			if _, isVar := obj.(*types.Var); !isVar {
				continue
			}
			if best == nil || bestBlock.Dominates(blk) && (bestBlock != blk || i > bestIdx) {
				best, bestBlock, bestIdx = d.X, blk, i
			}
		}
	}
	if best != nil {
		return best, true
	}
	for _, blk := range fr.fn.Blocks {
		for _, ins := range blk.Instrs {
			if a, ok := ins.(*ssa.Alloc); ok && a.Comment == name {
				return a, true
			}
		}
	}
	return nil, false
}

// invArgs builds the argument list of a loop clause function. sub maps header
// phis to the value to use for them (entry or back-edge operands).
func (fr *Frame) invArgs(l *Loop, cl *Clause, st *State, sub func(*ssa.Phi) (Val, bool)) []Val {
	vc := fr.vc
	var args []Val
	for _, p := range fr.fn.Params {
		args = append(args, fr.get(p))
	}
	args = append(args, vc.rootLogicals...)
	args = append(args, vc.rootOlds...)
	for _, lv := range cl.Locals {
		v, ok := fr.localAt(l, lv)
		if !ok {
			panic(unsupported(fmt.Sprintf("loop clause of %s: cannot resolve local %q", fr.fn.Name(), lv)))
		}
		if phi, ok := v.(*ssa.Phi); ok && phi.Block() == l.header {
			if sv, ok := sub(phi); ok {
				args = append(args, sv)
				continue
			}
		}
		if a, ok := v.(*ssa.Alloc); ok && a.Comment == lv {
			// address-taken local: the variable's value is the cell's content
			pv := fr.get(a)
			t := ptrElem(a.Type())
			args = append(args, Val{T: t, S: vc.load(st, vc.locOf(pv))})
			continue
		}
		args = append(args, fr.get(v))
	}
	return args
}

func (fr *Frame) loopSpec(l *Loop) *LoopSpec {
	if fr.contract == nil {
		return nil
	}
	return fr.contract.Loops[l.ordinal]
}

func (fr *Frame) enterLoop(b *ssa.BasicBlock, st *State, reach string, entryPhi func(*ssa.Phi) Val) {
	vc := fr.vc
	l := fr.loops.headers[b.Index]
	spec := fr.loopSpec(l)
	root := fr.oblFn()
	entryVals := map[*ssa.Phi]Val{}
	var phis []*ssa.Phi
	for _, ins := range b.Instrs {
		if phi, ok := ins.(*ssa.Phi); ok {
			phis = append(phis, phi)
			entryVals[phi] = entryPhi(phi)
		}
	}
	// 1. invariants hold on entry
	if spec != nil && !fr.pure {
		for k, cl := range spec.Invariants {
			args := fr.invArgs(l, cl, st, func(p *ssa.Phi) (Val, bool) { v, ok := entryVals[p]; return v, ok })
			g := vc.evalClause(cl, args, st, fr)
			o := vc.addObl("inv-init", root, fmt.Sprintf("inv-init:%s:L%d:%d", root, l.ordinal, k), reach, g, l.pos)
			o.Clause = cl.Text
		}
	}
	// 2. havoc what the loop changes
	if l.mods == nil {
		l.mods = vc.eng.loopMods(fr.fn, l)
	}
	if vc.frame.active && vc.frame.strict && !fr.pure && !l.mods.all {
		// The function under contract has a declared frame: every write in it is
		// an obligation (frame:...) to hit only objects allocated during this
		// execution or the objects listed in its modifies clause. The loop may
		// therefore change nothing else: objects that existed on entry keep their
		// contents across the cut.
		vc.bumpNext(st)
		for _, k := range l.mods.keys() {
			vc.registerKey(k)
			if strings.HasPrefix(k, "G|") || strings.HasPrefix(k, "Gh|") {
				vc.havocHeap(st, k, "", nil)
			} else {
				vc.havocHeap(st, k, vc.frame.next0, vc.frame.refs)
			}
		}
	} else {
		vc.havocMods(st, l.mods)
	}
	if vc.locksOn && !fr.pure {
		if fr.loopLocks == nil {
			fr.loopLocks = map[int]*State{}
		}
		fr.loopLocks[b.Index] = st.clone()
	}
	for _, phi := range phis {
		t := phi.Type()
		ev := entryVals[phi]
		if ev.Loc != nil {
			panic(unsupported("loop-carried interior pointer " + phi.Name()))
		}
		n := vc.fresh(vc.sorts().sortOf(t), fr.valName(phi))
		fr.vals[phi] = Val{T: t, S: n}
		vc.typingFacts(st, t, n)
	}
	// range loops: the hidden index obeys -1 <= idx < len by construction
	if b.Comment == "rangeindex.loop" {
		for _, phi := range phis {
			if phi.Comment != "rangeindex" {
				continue
			}
			if iff, ok := b.Instrs[len(b.Instrs)-1].(*ssa.If); ok {
				if cmp, ok := iff.Cond.(*ssa.BinOp); ok && cmp.Op == token.LSS {
					if ln, ok2 := fr.vals[cmp.Y]; ok2 || isConst(cmp.Y) {
						if !ok2 {
							ln = fr.get(cmp.Y)
						}
						p := fr.vals[phi].S
						vc.assume(fmt.Sprintf("(and (bvsle #xffffffffffffffff %s) (bvslt %s %s))", p, p, ln.S))
					}
				}
			}
		}
	}
	// 3. assume invariants for an arbitrary iteration
	if spec != nil {
		for _, cl := range spec.Invariants {
			args := fr.invArgs(l, cl, st, func(p *ssa.Phi) (Val, bool) { return Val{}, false })
			g := vc.evalClause(cl, args, st, fr)
			vc.assume(sImp(reach, g))
		}
		if spec.Decreases != nil {
			args := fr.invArgs(l, spec.Decreases, st, func(p *ssa.Phi) (Val, bool) { return Val{}, false })
			v := vc.evalClauseVal(spec.Decreases, args, st, fr)
			fr.variant[b.Index] = v.S
			_, signed, _ := isIntType(v.T)
			fr.variantSigned[b.Index] = signed
		}
	}
}

func isConst(v ssa.Value) bool { _, ok := v.(*ssa.Const); return ok }

// backEdges generates the preservation obligations for every back edge that
// leaves block b.
func (fr *Frame) backEdges(b *ssa.BasicBlock, st *State) {
	vc := fr.vc
	for _, s := range b.Succs {
		if !s.Dominates(b) {
			continue
		}
		l := fr.loops.headers[s.Index]
		spec := fr.loopSpec(l)
		if head := fr.loopLocks[s.Index]; head != nil && !fr.pure {
			// the cut keeps the lock state: an iteration must leave it as it found it
			vc.lockLoopBalance(fr, head, st, fr.edge[[2]int{b.Index, s.Index}], l)
		}
		if spec == nil || fr.pure {
			continue
		}
		cond := fr.edge[[2]int{b.Index, s.Index}]
		root := fr.oblFn()
		// index of b among s.Preds
		pi := -1
		for i, p := range s.Preds {
			if p == b {
				pi = i
			}
		}
		sub := func(p *ssa.Phi) (Val, bool) { return fr.get(p.Edges[pi]), true }
		for k, cl := range spec.Invariants {
			args := fr.invArgs(l, cl, st, sub)
			g := vc.evalClause(cl, args, st, fr)
			o := vc.addObl("inv-pres", root, fmt.Sprintf("inv-pres:%s:L%d:%d", root, l.ordinal, k), cond, g, l.pos)
			o.Clause = cl.Text
		}
		if spec.Decreases != nil {
			args := fr.invArgs(l, spec.Decreases, st, sub)
			v := vc.evalClauseVal(spec.Decreases, args, st, fr)
			v0 := fr.variant[s.Index]
			var g string
			if fr.variantSigned[s.Index] {
				w, _, _ := isIntType(v.T)
				g = sAnd(app("bvslt", v.S, v0), app("bvsge", v0, bvConst(0, w)))
			} else {
				g = app("bvult", v.S, v0)
			}
			o := vc.addObl("dec", root, fmt.Sprintf("dec:%s:L%d", root, l.ordinal), cond, g, l.pos)
			o.Clause = spec.Decreases.Text
		}
	}
}
