package main

import (
	"fmt"
	"go/token"
	"go/types"

	"golang.org/x/tools/go/ssa"
)

// to64 widens an integer index value to 64 bits according to its type.
func to64(v Val, t types.Type) string {
	w, signed, ok := isIntType(t)
	if !ok {
		panic(unsupported("non-integer index " + t.String()))
	}
	return convInt(v.S, w, signed, 64)
}

func isArrayPtr(t types.Type) (*types.Array, bool) {
	if p, ok := t.Underlying().(*types.Pointer); ok {
		a, ok := p.Elem().Underlying().(*types.Array)
		return a, ok
	}
	return nil, false
}

func (fr *Frame) indexAddr(b *ssa.BasicBlock, x *ssa.IndexAddr, st *State, reach string) {
	vc := fr.vc
	base := fr.get(x.X)
	idx := to64(fr.get(x.Index), x.Index.Type())
	switch u := x.X.Type().Underlying().(type) {
	case *types.Slice:
		fr.safe("index", reach, app("bvult", idx, app("g_slen", base.S)), x.Pos())
		et := u.Elem()
		if vc.quant > 0 {
			// first slice indexed by a bound variable whose offset is being looked for
			for _, cand := range vc.qcands {
				if idx == cand && vc.qoffs[cand] == "" && !mentions(base.S, cand) {
					vc.qoffs[cand] = app("g_soff", base.S)
				}
			}
		}
		fr.vals[x] = Val{T: x.Type(), Loc: &Loc{Kind: locElem, Key: vc.elemKey(et), Ref: app("g_sarr", base.S),
			Idx: vc.def(bvSort(64), "eidx", app("bvadd", app("g_soff", base.S), idx)), CellT: et, T: et}}
	case *types.Pointer:
		arr := u.Elem().Underlying().(*types.Array)
		fr.safe("index", reach, app("bvult", idx, bvConst(uint64(arr.Len()), 64)), x.Pos())
		l := vc.locOf(base)
		if l.Kind == locBox && len(l.Path) == 0 && l.Key == vc.elemKey(arr.Elem()) {
			fr.checkNonNil(b, l.Ref, reach, x.Pos())
			fr.vals[x] = Val{T: x.Type(), Loc: &Loc{Kind: locElem, Key: vc.elemKey(arr.Elem()), Ref: l.Ref, Idx: idx, CellT: arr.Elem(), T: arr.Elem()}}
			return
		}
		n := *l
		n.Path = append(append([]Step(nil), l.Path...), Step{IsIdx: true, Index: idx, In: u.Elem()})
		n.T = arr.Elem()
		fr.vals[x] = Val{T: x.Type(), Loc: &n}
	default:
		panic(unsupported("IndexAddr on " + x.X.Type().String()))
	}
}

func (fr *Frame) index(b *ssa.BasicBlock, x *ssa.Index, st *State, reach string) {
	base := fr.get(x.X)
	idx := to64(fr.get(x.Index), x.Index.Type())
	switch u := x.X.Type().Underlying().(type) {
	case *types.Array:
		fr.safe("index", reach, app("bvult", idx, bvConst(uint64(u.Len()), 64)), x.Pos())
		fr.bind(x, Val{S: fmt.Sprintf("(select %s %s)", base.S, idx)})
	case *types.Basic: // string
		fr.safe("index", reach, app("bvult", idx, app("g_strlen", base.S)), x.Pos())
		fr.bind(x, Val{S: app("g_strat", base.S, idx)})
	default:
		panic(unsupported("Index on " + x.X.Type().String()))
	}
}

// boxKey for array types is the element heap, so that arrays can be sliced.
func (vc *VC) boxKeyFor(t types.Type) string {
	if a, ok := t.Underlying().(*types.Array); ok {
		return vc.elemKey(a.Elem())
	}
	return vc.boxKey(t)
}

func (fr *Frame) makeSlice(b *ssa.BasicBlock, x *ssa.MakeSlice, st *State, reach string) {
	vc := fr.vc
	ln := to64(fr.get(x.Len), x.Len.Type())
	cp := to64(fr.get(x.Cap), x.Cap.Type())
	fr.safe("makeslice", reach, fmt.Sprintf("(and (bvsle (_ bv0 64) %s) (bvsle %s %s))", ln, ln, cp), x.Pos())
	fr.allocBound(reach, cp, x.Pos())
	et := x.Type().Underlying().(*types.Slice).Elem()
	ref := vc.alloc(st)
	vc.writeCell(st, vc.elemKey(et), ref, fmt.Sprintf("((as const (Array (_ BitVec 64) %s)) %s)", vc.sorts().sortOf(et), vc.sorts().zero(et)))
	fr.bind(x, Val{S: fmt.Sprintf("(g_mkslice %s (_ bv0 64) %s %s)", ref, ln, cp)})
}

// allocBound: with an `alloc <= N` clause every make in the body is bounded.
func (fr *Frame) allocBound(reach, n string, pos token.Pos) {
	r := fr
	for r.parent != nil {
		r = r.parent
	}
	if r.contract == nil || fr.vc.allocTerm == "" {
		return
	}
	// anything a 16-bit length field can announce (<= 65535 elements) is always allowed
	fr.safe("alloc", reach, sOr(app("bvule", n, bvConst(65535, 64)), app("bvule", n, fr.vc.allocTerm)), pos)
}

func (fr *Frame) slice(b *ssa.BasicBlock, x *ssa.Slice, st *State, reach string) {
	vc := fr.vc
	base := fr.get(x.X)
	opt := func(v ssa.Value, def string) string {
		if v == nil {
			return def
		}
		return to64(fr.get(v), v.Type())
	}
	switch u := x.X.Type().Underlying().(type) {
	case *types.Slice:
		lo := opt(x.Low, bvConst(0, 64))
		hi := opt(x.High, app("g_slen", base.S))
		mx := opt(x.Max, app("g_scap", base.S))
		fr.safe("slice", reach, fmt.Sprintf("(and (bvule %s %s) (bvule %s %s) (bvule %s (g_scap %s)))", lo, hi, hi, mx, mx, base.S), x.Pos())
		fr.bind(x, Val{S: fmt.Sprintf("(g_mkslice (g_sarr %s) (bvadd (g_soff %s) %s) (bvsub %s %s) (bvsub %s %s))", base.S, base.S, lo, hi, lo, mx, lo)})
	case *types.Basic: // string
		lo := opt(x.Low, bvConst(0, 64))
		hi := opt(x.High, app("g_strlen", base.S))
		fr.safe("slice", reach, fmt.Sprintf("(and (bvule %s %s) (bvule %s (g_strlen %s)))", lo, hi, hi, base.S), x.Pos())
		r := vc.def("g_Str", "substr", app("g_strsub", base.S, lo, hi))
		vc.assume(sImp(reach, sEq(app("g_strlen", r), app("bvsub", hi, lo))))
		fr.bind(x, Val{S: r})
	case *types.Pointer:
		arr, ok := u.Elem().Underlying().(*types.Array)
		if !ok {
			panic(unsupported("slice of pointer to non-array"))
		}
		l := vc.locOf(base)
		if !(l.Kind == locBox && len(l.Path) == 0 && l.Key == vc.elemKey(arr.Elem())) {
			panic(unsupported("slicing an array embedded in another object"))
		}
		fr.checkNonNil(b, l.Ref, reach, x.Pos())
		n := bvConst(uint64(arr.Len()), 64)
		lo := opt(x.Low, bvConst(0, 64))
		hi := opt(x.High, n)
		mx := opt(x.Max, n)
		fr.safe("slice", reach, fmt.Sprintf("(and (bvule %s %s) (bvule %s %s) (bvule %s %s))", lo, hi, hi, mx, mx, n), x.Pos())
		lenT, capT := app("bvsub", hi, lo), app("bvsub", mx, lo)
		kl, okl := constLen(lo)
		kh, okh := constLen(hi)
		if okl && okh && kh >= kl {
			lenT = bvConst(uint64(kh-kl), 64)
		}
		fr.bind(x, Val{S: fmt.Sprintf("(g_mkslice %s %s %s %s)", l.Ref, lo, lenT, capT)})
		if okl && okh && kh >= kl {
			vc.knownLen[fr.vals[x].S] = kh - kl
		}
	default:
		panic(unsupported("Slice on " + x.X.Type().String()))
	}
}

// ---------------------------------------------------------------------------
// maps
// ---------------------------------------------------------------------------

func (vc *VC) mapPresent(st *State, m *types.Map, ref, key string) string {
	_, kd, _ := vc.mapKeys(m)
	return sAnd(sNot(sEq(ref, bvConst(0, 64))), fmt.Sprintf("(select %s %s)", vc.readCell(st, kd, ref), key))
}

func (vc *VC) mapLen(st *State, m *types.Map, ref string) string {
	_, _, kc := vc.mapKeys(m)
	c := vc.readCell(st, kc, ref)
	vc.assume(fmt.Sprintf("(and (bvsle (_ bv0 64) %s) (bvsle %s #x0000ffffffffffff))", c, c))
	return sIte(sEq(ref, bvConst(0, 64)), bvConst(0, 64), c)
}

func (fr *Frame) lookup(b *ssa.BasicBlock, x *ssa.Lookup, st *State, reach string) {
	vc := fr.vc
	base := fr.get(x.X)
	if isString(x.X.Type()) {
		idx := to64(fr.get(x.Index), x.Index.Type())
		fr.safe("index", reach, app("bvult", idx, app("g_strlen", base.S)), x.Pos())
		fr.bind(x, Val{S: app("g_strat", base.S, idx)})
		return
	}
	m := x.X.Type().Underlying().(*types.Map)
	kv, _, _ := vc.mapKeys(m)
	key := vc.mapKeyTerm(m, vc.valTerm(fr.get(x.Index)))
	if isIface(m.Key()) && !isIface(x.Index.Type()) {
		panic(unsupported("map with interface keys"))
	}
	present := vc.def("Bool", "present", vc.mapPresent(st, m, base.S, key))
	if vc.quant == 0 {
		_, _, kc := vc.mapKeys(m)
		vc.assume(sImp(present, app("bvsge", vc.readCell(st, kc, base.S), bvConst(1, 64))))
	}
	val := sIte(present, fmt.Sprintf("(select %s %s)", vc.readCell(st, kv, base.S), key), vc.sorts().zero(m.Elem()))
	var vt types.Type = m.Elem()
	v := Val{T: vt, S: vc.def(vc.sorts().sortOf(vt), "mapval", val)}
	vc.typingFacts(st, vt, v.S)
	if x.CommaOk {
		fr.vals[x] = Val{T: x.Type(), Tup: []Val{v, {T: types.Typ[types.Bool], S: present}}}
	} else {
		fr.vals[x] = v
	}
}

func (fr *Frame) mapUpdate(b *ssa.BasicBlock, x *ssa.MapUpdate, st *State, reach string) {
	if fr.pure {
		panic(unsupported("map update in specification"))
	}
	vc := fr.vc
	base := fr.get(x.Map)
	m := x.Map.Type().Underlying().(*types.Map)
	fr.safe("nilmap", reach, sNot(sEq(base.S, bvConst(0, 64))), x.Pos())
	key := vc.mapKeyTerm(m, vc.valTerm(fr.get(x.Key)))
	val := vc.valTerm(fr.get(x.Value))
	fr.frameCheckRef(b, base.S, "true", st, reach, x.Pos(), "mapupdate")
	vc.mapStore(st, m, base.S, key, val)
}

func (vc *VC) mapStore(st *State, m *types.Map, ref, key, val string) {
	kv, kd, kc := vc.mapKeys(m)
	dom := vc.readCell(st, kd, ref)
	present := vc.def("Bool", "present", fmt.Sprintf("(select %s %s)", dom, key))
	vc.writeCell(st, kc, ref, sIte(present, vc.readCell(st, kc, ref), app("bvadd", vc.readCell(st, kc, ref), bvConst(1, 64))))
	vc.writeCell(st, kd, ref, fmt.Sprintf("(store %s %s true)", dom, key))
	vc.writeCell(st, kv, ref, fmt.Sprintf("(store %s %s %s)", vc.readCell(st, kv, ref), key, val))
}

func (vc *VC) mapDelete(st *State, m *types.Map, ref, key string) {
	_, kd, kc := vc.mapKeys(m)
	dom := vc.readCell(st, kd, ref)
	present := vc.def("Bool", "present", fmt.Sprintf("(select %s %s)", dom, key))
	// the counter is the number of keys: a map that holds a key holds at least one
	vc.assume(sImp(present, app("bvsge", vc.readCell(st, kc, ref), bvConst(1, 64))))
	vc.writeCell(st, kc, ref, sIte(present, app("bvsub", vc.readCell(st, kc, ref), bvConst(1, 64)), vc.readCell(st, kc, ref)))
	vc.writeCell(st, kd, ref, fmt.Sprintf("(store %s %s false)", dom, key))
}

type rangeInfo struct {
	x  ssa.Value
	v  Val
	st *State
}

func (fr *Frame) rangeStart(x *ssa.Range, st *State) {
	fr.vals[x] = Val{T: x.Type(), S: "range"}
	fr.vc.eng.ranges[x] = &rangeInfo{x: x.X, v: fr.get(x.X)}
}

func (fr *Frame) rangeNext(x *ssa.Next, st *State) {
	vc := fr.vc
	ri := vc.eng.ranges[x.Iter.(*ssa.Range)]
	tup := x.Type().(*types.Tuple)
	ok := vc.fresh("Bool", "rangeok")
	if x.IsString {
		idx := vc.fresh(bvSort(64), "rangeidx")
		r := vc.fresh(bvSort(32), "rangerune")
		vc.assume(sImp(ok, fmt.Sprintf("(and (bvsle (_ bv0 64) %s) (bvslt %s (g_strlen %s)))", idx, idx, ri.v.S)))
		fr.vals[x] = Val{T: tup, Tup: []Val{{T: tup.At(0).Type(), S: ok}, {T: tup.At(1).Type(), S: idx}, {T: tup.At(2).Type(), S: r}}}
		return
	}
	m := ri.x.Type().Underlying().(*types.Map)
	kv, _, _ := vc.mapKeys(m)
	k := vc.fresh(vc.sorts().sortOf(m.Key()), "rangekey")
	vc.typingFacts(st, m.Key(), k)
	// the key is present in the map as it is now (deleted keys are not visited)
	kk := vc.mapKeyTerm(m, k)
	vc.assume(sImp(ok, vc.mapPresent(st, m, ri.v.S, kk)))
	v := vc.def(vc.sorts().sortOf(m.Elem()), "rangeval", fmt.Sprintf("(select %s %s)", vc.readCell(st, kv, ri.v.S), kk))
	vc.typingFacts(st, m.Elem(), v)
	kt, vt := tup.At(1).Type(), tup.At(2).Type()
	fr.vals[x] = Val{T: tup, Tup: []Val{{T: tup.At(0).Type(), S: ok}, {T: kt, S: k}, {T: vt, S: v}}}
	vc.trust("map range: visits present keys in unspecified order; that each key is visited exactly once is not modelled")
}

// ---------------------------------------------------------------------------
// builtins
// ---------------------------------------------------------------------------

func (fr *Frame) builtin(b *ssa.BasicBlock, name string, c *ssa.CallCommon, st *State, reach string, pos token.Pos, resT types.Type) *Val {
	vc := fr.vc
	args := make([]Val, len(c.Args))
	for i, a := range c.Args {
		args[i] = fr.get(a)
	}
	switch name {
	case "len":
		switch u := c.Args[0].Type().Underlying().(type) {
		case *types.Slice:
			return &Val{T: resT, S: app("g_slen", args[0].S)}
		case *types.Basic:
			return &Val{T: resT, S: app("g_strlen", args[0].S)}
		case *types.Map:
			return &Val{T: resT, S: vc.def(bvSort(64), "maplen", vc.mapLen(st, u, args[0].S))}
		case *types.Array:
			return &Val{T: resT, S: bvConst(uint64(u.Len()), 64)}
		case *types.Pointer:
			a := u.Elem().Underlying().(*types.Array)
			return &Val{T: resT, S: bvConst(uint64(a.Len()), 64)}
		case *types.Chan:
			n := vc.fresh(bvSort(64), "chanlen")
			vc.assume(app("bvsle", bvConst(0, 64), n))
			return &Val{T: resT, S: n}
		}
	case "cap":
		switch u := c.Args[0].Type().Underlying().(type) {
		case *types.Slice:
			return &Val{T: resT, S: app("g_scap", args[0].S)}
		case *types.Array:
			return &Val{T: resT, S: bvConst(uint64(u.Len()), 64)}
		}
	case "append":
		return fr.appendBuiltin(b, c, args, st, reach, pos, resT)
	case "copy":
		return fr.copyBuiltin(b, c, args, st, reach, pos, resT)
	case "delete":
		fr.guardContents(c.Args[0], st, reach, pos)
		m := c.Args[0].Type().Underlying().(*types.Map)
		alt := st.clone()
		fr.frameCheckRef(b, args[0].S, sNot(sEq(args[0].S, bvConst(0, 64))), st, reach, pos, "mapdelete")
		vc.mapDelete(alt, m, args[0].S, vc.mapKeyTerm(m, vc.valTerm(args[1])))
		mg := vc.mergeStates([]string{sNot(sEq(args[0].S, bvConst(0, 64)))}, []*State{alt, st})
		*st = *mg
		return nil
	case "min", "max":
		w, signed, ok := isIntType(resT)
		if !ok {
			break
		}
		_ = w
		cur := args[0].S
		for _, a := range args[1:] {
			var lt string
			if signed {
				lt = app("bvslt", a.S, cur)
			} else {
				lt = app("bvult", a.S, cur)
			}
			if name == "max" {
				if signed {
					lt = app("bvsgt", a.S, cur)
				} else {
					lt = app("bvugt", a.S, cur)
				}
			}
			cur = sIte(lt, a.S, cur)
		}
		return &Val{T: resT, S: cur}
	case "print", "println":
		return nil
	case "close":
		// closing a nil or an already closed channel panics
		ch := args[0].S
		key := vc.ghostKey("Gh|chclosed")
		fr.safe("close", reach, sAnd(sNot(sEq(ch, bvConst(0, 64))), sNot(vc.readCell(st, key, ch))), pos)
		if !fr.pure {
			vc.writeCell(st, key, ch, "true")
		}
		return nil
	case "ssa:wrapnilchk":
		fr.checkNonNil(b, vc.valTerm(args[0]), reach, pos)
		return &args[0]
	case "recover":
		return &Val{T: resT, S: "g_niliface"}
	}
	panic(unsupported("builtin " + name))
}

func constLen(term string) (int, bool) {
	var v uint64
	var w int
	if n, _ := fmt.Sscanf(term, "(_ bv%d %d)", &v, &w); n == 2 && v <= 16 {
		return int(v), true
	}
	return 0, false
}

func (fr *Frame) appendBuiltin(b *ssa.BasicBlock, c *ssa.CallCommon, args []Val, st *State, reach string, pos token.Pos, resT types.Type) *Val {
	vc := fr.vc
	s, t := args[0].S, args[1].S
	sl := resT.Underlying().(*types.Slice)
	et := sl.Elem()
	es := vc.sorts().sortOf(et)
	key := vc.elemKey(et)
	var tlen string
	tIsString := isString(c.Args[1].Type())
	if tIsString {
		tlen = app("g_strlen", t)
	} else {
		tlen = app("g_slen", t)
	}
	if k, ok := constLen(tlen); ok && k == 0 {
		return &Val{T: resT, S: s}
	}
	var srcAt func(j string) string
	if tIsString {
		srcAt = func(j string) string { return app("g_strat", t, j) }
	} else {
		tarr := vc.def("(Array (_ BitVec 64) "+es+")", "tarr", vc.readCell(st, key, app("g_sarr", t)))
		srcAt = func(j string) string { return fmt.Sprintf("(select %s (bvadd (g_soff %s) %s))", tarr, t, j) }
	}
	// an append that fits the capacity writes the existing backing array
	fr.frameCheckRef(b, app("g_sarr", s), sAnd(app("bvsgt", tlen, bvConst(0, 64)), app("bvsle", app("bvadd", app("g_slen", s), tlen), app("g_scap", s))), st, reach, pos, "append")
	return &Val{T: resT, S: vc.appendCore(st, et, s, tlen, srcAt)}
}

// appendCore models append(s, t...) for a source of length tlen whose j-th
// element is srcAt(j); returns the resulting slice term.
func (vc *VC) appendCore(st *State, et types.Type, s, tlen string, srcAt func(j string) string) string {
	es := vc.sorts().sortOf(et)
	key := vc.elemKey(et)
	slen := vc.def(bvSort(64), "alen", app("g_slen", s))
	n := vc.def(bvSort(64), "anew", app("bvadd", slen, tlen))
	inplace := vc.def("Bool", "inplace", app("bvsle", n, app("g_scap", s)))
	sarr := vc.def("(Array (_ BitVec 64) "+es+")", "sarr", vc.readCell(st, key, app("g_sarr", s)))
	newRef := vc.alloc(st)
	newCap := vc.fresh(bvSort(64), "newcap")
	vc.assume(fmt.Sprintf("(and (bvsle %s %s) (bvsle %s #x0000ffffffffffff))", n, newCap, newCap))
	// One array describes the result in both cases (append in place, or into a
	// fresh array). A fresh array is laid out like the old one: the new slice keeps
	// the offset of s (offsets into a fresh array are arbitrary), so an element
	// keeps its absolute position and facts about old and new contents line up
	// index by index. In place, the cells outside the appended range are untouched.
	off := app("g_soff", s)
	at := func(rel string) string { return fmt.Sprintf("(bvadd %s %s)", off, rel) }
	arrSort := "(Array (_ BitVec 64) " + es + ")"
	appArr := vc.fresh(arrSort, "apparr")
	base := vc.def(bvSort(64), "abase", at(slen))
	if k, ok := constLen(tlen); ok {
		vc.assume(fmt.Sprintf("(forall ((g_j (_ BitVec 64))) (! (=> (and (bvule %s g_j) (bvult g_j %s)) (= (select %s g_j) (select %s g_j))) :pattern ((select %s g_j)) :pattern ((select %s g_j))))",
			off, base, appArr, sarr, appArr, sarr))
		for j := 0; j < k; j++ {
			jj := bvConst(uint64(j), 64)
			vc.assume(fmt.Sprintf("(= (select %s (bvadd %s %s)) %s)", appArr, base, jj, srcAt(jj)))
		}
	} else {
		vc.assume(fmt.Sprintf("(forall ((g_j (_ BitVec 64))) (! (=> (and (bvule %s g_j) (bvult g_j %s)) (= (select %s g_j) (ite (bvult g_j %s) (select %s g_j) %s))) :pattern ((select %s g_j))))",
			off, at(n), appArr, base, sarr, srcAt("(bvsub g_j "+base+")"), appArr))
	}
	vc.assume(sImp(inplace, fmt.Sprintf("(forall ((g_j (_ BitVec 64))) (! (=> (not (and (bvule %s g_j) (bvult g_j %s))) (= (select %s g_j) (select %s g_j))) :pattern ((select %s g_j))))",
		base, at(n), appArr, sarr, appArr)))
	// a constant with a defining equation (not a macro): terms that mention the
	// target, such as triggers over the new heap, then contain no if-then-else
	target := vc.fresh(refSort, "apptarget")
	vc.assume(sEq(target, sIte(inplace, app("g_sarr", s), newRef)))
	vc.writeCell(st, key, target, appArr)
	res := fmt.Sprintf("(g_mkslice %s %s %s %s)", target, off, n, sIte(inplace, app("g_scap", s), newCap))
	return vc.def("g_Slice", "app", res)
}

func (fr *Frame) copyBuiltin(b *ssa.BasicBlock, c *ssa.CallCommon, args []Val, st *State, reach string, pos token.Pos, resT types.Type) *Val {
	vc := fr.vc
	d, s := args[0].S, args[1].S
	et := c.Args[0].Type().Underlying().(*types.Slice).Elem()
	es := vc.sorts().sortOf(et)
	key := vc.elemKey(et)
	var slen string
	var srcAt func(j string) string
	srcArr := ""
	if isString(c.Args[1].Type()) {
		slen = app("g_strlen", s)
		srcAt = func(j string) string { return app("g_strat", s, j) }
	} else {
		slen = app("g_slen", s)
		sarr := vc.def("(Array (_ BitVec 64) "+es+")", "csrc", vc.readCell(st, key, app("g_sarr", s)))
		srcArr = sarr
		srcAt = func(j string) string { return fmt.Sprintf("(select %s (bvadd (g_soff %s) %s))", sarr, s, j) }
	}
	n := vc.def(bvSort(64), "ncopy", sIte(app("bvslt", app("g_slen", d), slen), app("g_slen", d), slen))
	fr.frameCheckRef(b, app("g_sarr", d), app("bvsgt", n, bvConst(0, 64)), st, reach, pos, "copy")
	vc.copyInto(st, et, d, n, srcAt)
	if srcArr != "" && vc.quant == 0 {
		// summary of the copy for sequence-equality reasoning: afterwards the first
		// n elements of d are the first n elements s had before
		after := vc.def("(Array (_ BitVec 64) "+es+")", "cdst1", vc.readCell(st, key, app("g_sarr", d)))
		vc.assume(app(vc.sameSeqPred(et), after, app("g_soff", d), srcArr, app("g_soff", s), n))
		// the same fact seen from the source: a read of an old source element names
		// the destination cell that now holds it (witnesses move with a shift)
		vc.assume(fmt.Sprintf("(forall ((g_k (_ BitVec 64))) (! (=> (and (bvule (g_soff %s) g_k) (bvult g_k (bvadd (g_soff %s) %s))) (= (select %s (bvadd (bvsub g_k (g_soff %s)) (g_soff %s))) (select %s g_k))) :pattern ((select %s g_k))))",
			s, s, n, after, s, d, srcArr, srcArr))
	}
	return &Val{T: resT, S: n}
}
