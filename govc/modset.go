package main

import (
	"go/types"
	"sort"
	"strings"

	"golang.org/x/tools/go/ssa"
)

// ---------------------------------------------------------------------------
// Static mod-sets: which heap arrays a function (or loop body) may write,
// transitively over static callees and closed-world interface dispatch.
// ---------------------------------------------------------------------------

type ModSet struct {
	all  bool
	set  map[string]keyInfo
	keep map[string]bool // with all: heap-key prefixes that are nevertheless left unchanged (declared by contracts)
}

type keyInfo struct {
	kind  string // F, B, E, M, G
	t     types.Type
	field int
	g     *ssa.Global
}

func newModSet() *ModSet { return &ModSet{set: map[string]keyInfo{}} }

func (m *ModSet) keys() []string {
	var ks []string
	for k := range m.set {
		ks = append(ks, k)
	}
	sort.Strings(ks)
	return ks
}

func (m *ModSet) union(o *ModSet) bool {
	ch := false
	if o.all && !m.all {
		m.all = true
		m.keep = map[string]bool{}
		for k := range o.keep {
			m.keep[k] = true
		}
		ch = true
	} else if o.all && m.all {
		for k := range m.keep {
			if !o.keep[k] {
				delete(m.keep, k)
				ch = true
			}
		}
	}
	for k, v := range o.set {
		if _, ok := m.set[k]; !ok {
			m.set[k] = v
			ch = true
		}
	}
	return ch
}

// registerKey makes sure a heap key computed by the static analysis is known
// to the VC (sort registered) before it is havocked.
func (vc *VC) registerKey(k string) {
	info, ok := vc.eng.keyInfos[k]
	if !ok {
		return
	}
	switch info.kind {
	case "F":
		vc.fieldKey(info.t, info.field)
	case "B":
		vc.boxKey(info.t)
	case "E":
		vc.elemKey(info.t)
	case "M":
		vc.mapKeys(info.t.Underlying().(*types.Map))
	case "G":
		vc.globalKey(info.g)
	case "Gh":
		vc.ghostKey(k)
	}
}

func (eng *Engine) addKey(m *ModSet, k string, info keyInfo) {
	m.set[k] = info
	eng.keyInfos[k] = info
}

func (eng *Engine) addField(m *ModSet, structT types.Type, i int) {
	k := "F|" + eng.sorts.structKey(structT) + "|" + itoa(i)
	eng.addKey(m, k, keyInfo{kind: "F", t: structT, field: i})
}

func (eng *Engine) addAllFields(m *ModSet, structT types.Type) {
	st := structT.Underlying().(*types.Struct)
	for i := 0; i < st.NumFields(); i++ {
		eng.addField(m, structT, i)
	}
}

func (eng *Engine) addBox(m *ModSet, t types.Type) {
	if a, ok := t.Underlying().(*types.Array); ok {
		eng.addElem(m, a.Elem())
		return
	}
	eng.addKey(m, "B|"+typeKey(t), keyInfo{kind: "B", t: t})
}

func (eng *Engine) addElem(m *ModSet, t types.Type) {
	eng.addKey(m, "E|"+typeKey(t), keyInfo{kind: "E", t: t})
}

func (eng *Engine) addMap(m *ModSet, mt *types.Map) {
	id := typeKey(mt.Key()) + "|" + typeKey(mt.Elem())
	for _, p := range []string{"Mv|", "Md|", "Mc|"} {
		eng.addKey(m, p+id, keyInfo{kind: "M", t: mt})
	}
}

func itoa(i int) string {
	if i == 0 {
		return "0"
	}
	s := ""
	for i > 0 {
		s = string(rune('0'+i%10)) + s
		i /= 10
	}
	return s
}

// storeTarget adds the heap key written by a store through addr.
func (eng *Engine) storeTarget(m *ModSet, addr ssa.Value, depth int) {
	if depth > 20 {
		m.all = true
		return
	}
	switch a := addr.(type) {
	case *ssa.FieldAddr:
		// root or nested?
		switch a.X.(type) {
		case *ssa.FieldAddr, *ssa.IndexAddr:
			eng.storeTarget(m, a.X, depth+1)
			return
		}
		eng.addField(m, ptrElem(a.X.Type()), a.Field)
	case *ssa.IndexAddr:
		switch u := a.X.Type().Underlying().(type) {
		case *types.Slice:
			eng.addElem(m, u.Elem())
		case *types.Pointer:
			switch a.X.(type) {
			case *ssa.FieldAddr, *ssa.IndexAddr:
				eng.storeTarget(m, a.X, depth+1)
			default:
				eng.addElem(m, u.Elem().Underlying().(*types.Array).Elem())
			}
		}
	case *ssa.Global:
		t := ptrElem(a.Type())
		eng.addKey(m, "G|"+a.Pkg.Pkg.Path()+"."+a.Name(), keyInfo{kind: "G", t: t, g: a})
	default:
		// a pointer value: parameter, alloc, load, phi, call result
		t := ptrElem(addr.Type())
		if _, ok := isStruct(t); ok {
			eng.addAllFields(m, t)
		} else {
			eng.addBox(m, t)
		}
	}
}

func inModule(fn *ssa.Function) bool {
	if fn.Pkg == nil {
		if fn.Origin() != nil && fn.Origin().Pkg != nil {
			return strings.HasPrefix(fn.Origin().Pkg.Pkg.Path(), modulePath)
		}
		// synthetic wrappers / bound methods: look at the receiver's package
		if fn.Signature.Recv() != nil {
			if n, ok := derefNamed(fn.Signature.Recv().Type()); ok && n.Obj().Pkg() != nil {
				return strings.HasPrefix(n.Obj().Pkg().Path(), modulePath)
			}
		}
		return false
	}
	return strings.HasPrefix(fn.Pkg.Pkg.Path(), modulePath)
}

func derefNamed(t types.Type) (*types.Named, bool) {
	if p, ok := t.(*types.Pointer); ok {
		t = p.Elem()
	}
	n, ok := t.(*types.Named)
	return n, ok
}

// directMods computes the writes of the given blocks (without callees) and
// returns the static callees found.
func (eng *Engine) directMods(fn *ssa.Function, inBlock func(int) bool) (*ModSet, []*ssa.Function) {
	m := newModSet()
	var callees []*ssa.Function
	for _, b := range fn.Blocks {
		if inBlock != nil && !inBlock(b.Index) {
			continue
		}
		for _, ins := range b.Instrs {
			switch x := ins.(type) {
			case *ssa.Store:
				eng.storeTarget(m, x.Addr, 0)
			case *ssa.MapUpdate:
				eng.addMap(m, x.Map.Type().Underlying().(*types.Map))
			case ssa.CallInstruction:
				if _, isGo := ins.(*ssa.Go); isGo {
					continue
				}
				c := x.Common()
				if _, ok := isConnMethod(c); ok {
					eng.addGhostConn(m)
					continue
				}
				if c.IsInvoke() {
					if cm := eng.contractMods(eng.ifaceContracts[c.Method]); cm != nil {
						m.union(cm)
						continue
					}
					impls := eng.implementations(c.Value.Type(), c.Method)
					if impls == nil {
						eng.externalEffects(m, c)
					}
					callees = append(callees, impls...)
					continue
				}
				switch f := c.Value.(type) {
				case *ssa.Builtin:
					switch f.Name() {
					case "append":
						eng.addElem(m, c.Args[0].Type().Underlying().(*types.Slice).Elem())
					case "copy":
						eng.addElem(m, c.Args[0].Type().Underlying().(*types.Slice).Elem())
					case "delete":
						eng.addMap(m, c.Args[0].Type().Underlying().(*types.Map))
					case "close":
						eng.addKey(m, "Gh|chclosed", keyInfo{kind: "Gh"})
					}
				case *ssa.Function:
					if eng.modelFor(f) != nil {
						eng.modelFor(f).mods(eng, m, c)
					} else if cm := eng.contractMods(eng.contractOf(f)); cm != nil {
						// declared frame
						m.union(cm)
					} else if inModule(f) && len(f.Blocks) > 0 {
						callees = append(callees, f)
					} else {
						eng.externalEffects(m, c)
					}
				case *ssa.MakeClosure:
					callees = append(callees, f.Fn.(*ssa.Function))
				default:
					// call through a function value: unknown target
					m.all = true
				}
			}
		}
	}
	return m, callees
}

// contractMods: the effects a contract declares outright (modifies nothing, or
// preserves type ...); nil when the contract leaves them to the static analysis.
func (eng *Engine) contractMods(ct *Contract) *ModSet {
	if ct == nil {
		return nil
	}
	if ct.ModNothing {
		return newModSet()
	}
	if len(ct.PreserveTypes) > 0 {
		m := newModSet()
		m.all = true
		m.keep = map[string]bool{}
		for _, p := range ct.keepPrefixes() {
			m.keep[p] = true
		}
		return m
	}
	if ct.IfaceMethod != nil {
		return &ModSet{all: true, set: map[string]keyInfo{}}
	}
	return nil
}

func (ct *Contract) keepPrefixes() []string {
	var res []string
	for _, t := range ct.PreserveTypes {
		if strings.Contains(t, ".") {
			// a type of another package of the module: <dir>.<Type>
			res = append(res, "F|"+modulePath+"/"+t+"|")
		} else {
			res = append(res, "F|"+ct.PkgPath+"."+t+"|")
		}
	}
	return res
}

// havocMods forgets what a callee or loop with effects m may have written.
func (vc *VC) havocMods(st *State, m *ModSet) {
	if m.all {
		if len(m.keep) == 0 {
			vc.havocAll(st)
			return
		}
		var ks []string
		for k := range m.keep {
			ks = append(ks, k)
		}
		sort.Strings(ks)
		vc.havocProtect(st, nil, ks)
	}
	if !m.all {
		vc.bumpNext(st)
	}
	for _, k := range m.keys() {
		vc.registerKey(k)
		vc.havocHeap(st, k, "", nil)
	}
}

// externalEffects: an external function without a model may write the
// objects passed to it directly (slice elements, pointees), nothing else.
func (eng *Engine) externalEffects(m *ModSet, c *ssa.CallCommon) {
	args := c.Args
	for _, a := range args {
		eng.argEffects(m, a.Type(), 0)
	}
}

func (eng *Engine) argEffects(m *ModSet, t types.Type, depth int) {
	switch u := t.Underlying().(type) {
	case *types.Slice:
		if !isIface(u.Elem()) {
			eng.addElem(m, u.Elem())
		}
	case *types.Pointer:
		if _, ok := isStruct(u.Elem()); ok {
			if n, ok := u.Elem().(*types.Named); ok && n.Obj().Pkg() != nil && strings.HasPrefix(n.Obj().Pkg().Path(), modulePath) {
				eng.addAllFields(m, u.Elem())
			}
		} else {
			eng.addBox(m, u.Elem())
		}
	}
}

func (eng *Engine) funcMods(fn *ssa.Function) *ModSet {
	if m, ok := eng.modCache[fn]; ok {
		return m
	}
	// fixpoint over the call graph reachable from fn
	type node struct {
		direct  *ModSet
		callees []*ssa.Function
	}
	nodes := map[*ssa.Function]*node{}
	var order []*ssa.Function
	var visit func(f *ssa.Function)
	visit = func(f *ssa.Function) {
		if _, ok := nodes[f]; ok {
			return
		}
		if m, ok := eng.modCache[f]; ok {
			nodes[f] = &node{direct: m}
			return
		}
		n := &node{}
		nodes[f] = n
		order = append(order, f)
		if len(order) > 3000 {
			n.direct = &ModSet{all: true, set: map[string]keyInfo{}}
			return
		}
		n.direct, n.callees = eng.directMods(f, nil)
		for _, c := range n.callees {
			visit(c)
		}
	}
	visit(fn)
	res := map[*ssa.Function]*ModSet{}
	for f, n := range nodes {
		m := newModSet()
		m.union(n.direct)
		res[f] = m
	}
	for changed := true; changed; {
		changed = false
		for _, f := range order {
			for _, c := range nodes[f].callees {
				if res[f].union(res[c]) {
					changed = true
				}
			}
		}
	}
	for _, f := range order {
		eng.modCache[f] = res[f]
	}
	return res[fn]
}

func (eng *Engine) loopMods(fn *ssa.Function, l *Loop) *ModSet {
	m, callees := eng.directMods(fn, func(i int) bool { return l.body[i] })
	for _, c := range callees {
		m.union(eng.funcMods(c))
	}
	return m
}

// implementations returns the module methods that an interface method call
// can dispatch to (closed world over the loaded program's named types).
func (eng *Engine) implementations(ifaceT types.Type, method *types.Func) []*ssa.Function {
	it, ok := ifaceT.Underlying().(*types.Interface)
	if !ok {
		return nil
	}
	key := typeKey(ifaceT) + "." + method.Name()
	if r, ok := eng.implCache[key]; ok {
		return r
	}
	var res []*ssa.Function
	for _, t := range eng.allNamed {
		for _, cand := range []types.Type{t, types.NewPointer(t)} {
			if isIface(cand) {
				continue
			}
			if !types.Implements(cand, it) {
				continue
			}
			ms := eng.prog.MethodSets.MethodSet(cand)
			sel := ms.Lookup(method.Pkg(), method.Name())
			if sel == nil {
				continue
			}
			if f := eng.prog.MethodValue(sel); f != nil {
				res = append(res, f)
			}
			break
		}
	}
	eng.implCache[key] = res
	return res
}
