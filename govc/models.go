package main

import (
	"fmt"
	"go/token"
	"go/types"
	"strings"

	"golang.org/x/tools/go/ssa"
)

// ---------------------------------------------------------------------------
// Built-in models of external (standard library / third party) functions.
// Every model is part of the trusted base and is listed in the evidence when
// it is used.
// ---------------------------------------------------------------------------

type model struct {
	name  string
	apply func(fr *Frame, b *ssa.BasicBlock, f *ssa.Function, c *ssa.CallCommon, args []Val, st *State, reach string, pos token.Pos) *Val
	mods  func(eng *Engine, m *ModSet, c *ssa.CallCommon)
}

func noMods(eng *Engine, m *ModSet, c *ssa.CallCommon) {}

func funcFullName(f *ssa.Function) string {
	if f.Signature.Recv() != nil {
		return f.String() // (*pkg.T).M or (pkg.T).M
	}
	if f.Pkg != nil {
		return f.Pkg.Pkg.Path() + "." + f.Name()
	}
	return f.String()
}

func (eng *Engine) modelFor(f *ssa.Function) *model {
	n := funcFullName(f)
	if m, ok := eng.models[n]; ok {
		return m
	}
	if f.Pkg != nil && strings.HasPrefix(f.Pkg.Pkg.Path(), modulePath) {
		return nil
	}
	// package-wide models
	pkg := ""
	if f.Pkg != nil {
		pkg = f.Pkg.Pkg.Path()
	} else if f.Signature.Recv() != nil {
		if nt, ok := derefNamed(f.Signature.Recv().Type()); ok && nt.Obj().Pkg() != nil {
			pkg = nt.Obj().Pkg().Path()
		}
	}
	switch pkg {
	case "github.com/sirupsen/logrus", "log", "github.com/bio-routing/bio-rd/util/log", "go.uber.org/zap":
		return eng.models["@noop"]
	}
	return nil
}

func (eng *Engine) initModels() {
	eng.models = map[string]*model{}
	reg := func(name string, apply func(fr *Frame, b *ssa.BasicBlock, f *ssa.Function, c *ssa.CallCommon, args []Val, st *State, reach string, pos token.Pos) *Val) {
		eng.models[name] = &model{name: name, apply: apply, mods: noMods}
	}
	// logging and printing: no effect on tracked state, unconstrained results
	reg("@noop", func(fr *Frame, b *ssa.BasicBlock, f *ssa.Function, c *ssa.CallCommon, args []Val, st *State, reach string, pos token.Pos) *Val {
		fr.vc.trust("model: logging calls have no effect on program state")
		if strings.HasPrefix(f.Name(), "Fatal") || strings.HasPrefix(f.Name(), "Panic") {
			fr.safe("panic", reach, "false", pos)
		}
		return packResults(c, fr.freshResults(c, st, "log"))
	})
	pureFresh := func(what string) func(fr *Frame, b *ssa.BasicBlock, f *ssa.Function, c *ssa.CallCommon, args []Val, st *State, reach string, pos token.Pos) *Val {
		return func(fr *Frame, b *ssa.BasicBlock, f *ssa.Function, c *ssa.CallCommon, args []Val, st *State, reach string, pos token.Pos) *Val {
			fr.vc.trust("model: " + what)
			return packResults(c, fr.freshResults(c, st, f.Name()))
		}
	}
	for _, n := range []string{"fmt.Sprintf", "fmt.Sprint", "fmt.Sprintln", "strconv.Itoa", "strconv.FormatUint", "strconv.FormatInt",
		"strings.Join", "strings.Split", "strings.Repeat", "strings.ToLower", "strings.ToUpper", "strings.TrimSpace", "strings.Replace",
		"strconv.Atoi", "strconv.ParseUint", "strconv.ParseInt", "time.Now", "time.Since", "(time.Time).Unix", "(time.Time).UnixNano", "(time.Time).Sub", "(time.Time).Add",
		"(time.Time).Before", "(time.Time).After", "(time.Duration).Seconds", "time.NewTimer", "time.NewTicker", "time.After", "time.AfterFunc",
		"(*time.Timer).Stop", "(*time.Timer).Reset", "(*time.Ticker).Stop", "strings.Contains", "strings.HasPrefix", "strings.HasSuffix",
		"fmt.Println", "fmt.Printf", "fmt.Print", "fmt.Fprintf", "os.Exit", "math/rand.Intn", "math/rand.Uint32",
		"crypto/sha256.Sum256", "net.ParseIP", "net.ParseCIDR", "(net.IP).String", "(net.IP).To4", "(net.IP).To16", "net.CIDRMask", "(net.IPMask).Size",
	} {
		reg(n, pureFresh("string formatting/parsing, time and similar library calls return unconstrained values and write nothing"))
	}
	for _, k := range []struct {
		name string
		n    int
	}{{"(net.IP).To4", 4}, {"(net.IP).To16", 16}} {
		k := k
		reg(k.name, func(fr *Frame, b *ssa.BasicBlock, f *ssa.Function, c *ssa.CallCommon, args []Val, st *State, reach string, pos token.Pos) *Val {
			fr.vc.trust("model: net.IP.To4/To16 return nil or a slice of length 4/16 with unconstrained contents")
			res := fr.freshResults(c, st, f.Name())
			fr.vc.assume(sOr(sEq(app("g_sarr", res[0].S), bvConst(0, 64)), sEq(app("g_slen", res[0].S), bvConst(uint64(k.n), 64))))
			return packResults(c, res)
		})
	}
	errFresh := func(fr *Frame, b *ssa.BasicBlock, f *ssa.Function, c *ssa.CallCommon, args []Val, st *State, reach string, pos token.Pos) *Val {
		vc := fr.vc
		vc.trust("model: fmt.Errorf/errors.New return a fresh non-nil error whose dynamic type is a library error type (never a module type)")
		tag := vc.eng.pseudoTag("error:" + f.Name())
		ref := vc.alloc(st)
		return &Val{T: c.Signature().Results().At(0).Type(), S: fmt.Sprintf("(g_mkiface %s %s)", bvConst(uint64(tag), 32), ref)}
	}
	reg("fmt.Errorf", errFresh)
	reg("errors.New", errFresh)
	// sync: see locks.go for the lock models; atomics are plain accesses
	for _, n := range []string{"(*sync.Mutex).Lock", "(*sync.Mutex).Unlock", "(*sync.RWMutex).Lock", "(*sync.RWMutex).Unlock", "(*sync.RWMutex).RLock", "(*sync.RWMutex).RUnlock",
		"(*sync.WaitGroup).Add", "(*sync.WaitGroup).Done", "(*sync.WaitGroup).Wait", "(*sync.Once).Do"} {
		name := n
		reg(name, func(fr *Frame, b *ssa.BasicBlock, f *ssa.Function, c *ssa.CallCommon, args []Val, st *State, reach string, pos token.Pos) *Val {
			return fr.lockOp(name, b, c, args, st, reach, pos)
		})
	}
	// math
	reg("math.Ceil", func(fr *Frame, b *ssa.BasicBlock, f *ssa.Function, c *ssa.CallCommon, args []Val, st *State, reach string, pos token.Pos) *Val {
		fr.vc.eng.needFloat()
		fr.vc.trust("floating point: uninterpreted")
		return &Val{T: types.Typ[types.Float64], S: app("g_fceil", args[0].S)}
	})
	// math.Min / math.Max on float64: exact on values converted from integers of
	// magnitude below 2^53 (conversion is then injective and order preserving, and
	// converting back returns the integer). Facts are stated for the integer
	// arguments found syntactically under the conversions.
	for _, mm := range []string{"math.Min", "math.Max"} {
		isMin := mm == "math.Min"
		reg(mm, func(fr *Frame, b *ssa.BasicBlock, f *ssa.Function, c *ssa.CallCommon, args []Val, st *State, reach string, pos token.Pos) *Val {
			vc := fr.vc
			vc.eng.needFloat()
			vc.trust("model: math.Min/Max exact on float64 values converted from integers below 2^53 in magnitude; floating point otherwise uninterpreted")
			x, y := args[0].S, args[1].S
			lt := app("g_flt", x, y)
			var r string
			if isMin {
				r = sIte(lt, x, y)
			} else {
				r = sIte(lt, y, x)
			}
			small := func(a string) string {
				return sAnd(app("bvslt", a, "#x0020000000000000"), app("bvsgt", a, "#xffe0000000000000"))
			}
			inner := func(t string) string {
				if strings.HasPrefix(t, "(g_i2f ") && strings.HasSuffix(t, ")") {
					return t[len("(g_i2f ") : len(t)-1]
				}
				return ""
			}
			a, bb := inner(x), inner(y)
			if a != "" && bb != "" {
				g := sAnd(small(a), small(bb))
				vc.assume(sImp(g, sEq(lt, app("bvslt", a, bb))))
				vc.assume(sImp(g, sAnd(sEq(app("g_f2i", x), a), sEq(app("g_f2i", y), bb))))
			}
			return &Val{T: types.Typ[types.Float64], S: vc.def(bvSort(64), "fminmax", r)}
		})
	}
	eng.initBufModels()
	reg("math.Floor", func(fr *Frame, b *ssa.BasicBlock, f *ssa.Function, c *ssa.CallCommon, args []Val, st *State, reach string, pos token.Pos) *Val {
		fr.vc.eng.needFloat()
		fr.vc.trust("floating point: uninterpreted")
		return &Val{T: types.Typ[types.Float64], S: app("g_ffloor", args[0].S)}
	})
}

