package main

import (
	"fmt"
	"go/types"
	"os"
	"strings"

	"golang.org/x/tools/go/ssa"
)

// FuncResult is the outcome of generating VCs for one contract.
type FuncResult struct {
	Contract *Contract
	VC       *VC
	Obls     []*Obligation
	Err      string // non-empty: outside the subset / generator error
}

func (eng *Engine) verifyContract(ct *Contract) (res *FuncResult) {
	res = &FuncResult{Contract: ct}
	var fn *ssa.Function = ct.Fn
	vc := eng.newVC(fn, ct.FullKey())
	vc.curProps = ct.Props
	res.VC = vc
	defer func() {
		if r := recover(); r != nil {
			if u, ok := r.(unsupportedErr); ok {
				res.Err = u.Error()
				res.Obls = vc.obls
				return
			}
			fmt.Fprintf(os.Stderr, "internal error while verifying %s\n", ct.FullKey())
			panic(r)
		}
	}()
	st := &State{heap: map[string]string{}, next: "g_next0"}
	vc.preamble = append(vc.preamble, "(declare-const g_next0 (_ BitVec 64))", "(assert (and (bvuge g_next0 (_ bv2 64)) (bvult g_next0 #x1000000000000000)))")
	if ct.IsLemma {
		eng.verifyLemma(ct, vc, st)
		res.Obls = vc.obls
		return
	}
	callsOnly := false
	if ct.Trusted {
		if len(ct.Calls) == 0 && !ct.Locks {
			return
		}
		// a trusted contract (its frame and postconditions are assumed) may still
		// carry call-site obligations: the body is executed for those alone
		callsOnly = true
		vc.noSafety = true
	}
	if ct.NoSafety {
		vc.noSafety = true
		vc.safetyOnly = map[string]bool{}
		for _, k := range ct.SafetyOnly {
			vc.safetyOnly[k] = true
		}
		vc.trust("contract " + ct.FullKey() + " is checked without safety obligations (nosafety): absence of panics in it is assumed")
	}
	if eng.loopInfo(fn).rpo == nil {
		panic(unsupported("irreducible control flow in " + fn.String()))
	}
	// symbolic inputs
	args := make([]Val, len(fn.Params))
	for i, p := range fn.Params {
		t := p.Type()
		name := p.Name()
		n := vc.fresh(vc.sorts().sortOf(t), "in_"+name)
		args[i] = Val{T: t, S: n}
		vc.typingFacts(st, t, n)
		vc.inputs = append(vc.inputs, InputVar{Name: name, Term: n, T: t})
	}
	if fn.Signature.Recv() != nil && !ct.NilRecv {
		if _, isPtr := fn.Signature.Recv().Type().Underlying().(*types.Pointer); isPtr {
			vc.assume(sNot(sEq(args[0].S, bvConst(0, 64))))
		}
	}
	for _, i := range ct.nonNilParams() {
		vc.assume(sNot(sEq(args[i].S, bvConst(0, 64))))
	}
	for _, cl := range ct.Requires {
		vc.assume(vc.evalClause(cl, args, st, nil))
	}
	o := vc.addObl("pre-sat", vc.rootKey, "pre-sat:"+vc.rootKey, "true", "true", fn.Pos())
	o.ExpectSat = true
	// logical variables: arbitrary values (what is proved for them holds for all)
	var logicals []Val
	for _, lg := range ct.Logicals {
		t := eng.logicalType(ct, lg)
		n := vc.fresh(vc.sorts().sortOf(t), "lg_"+lg[0])
		vc.typingFacts(st, t, n)
		logicals = append(logicals, Val{T: t, S: n})
		vc.inputs = append(vc.inputs, InputVar{Name: lg[0], Term: n, T: t})
	}
	vc.rootLogicals = logicals
	argsL := append(append([]Val{}, args...), logicals...)
	var olds []Val
	for _, ob := range ct.Olds {
		olds = append(olds, vc.evalClauseVal(ob.Clause, argsL, st, nil))
	}
	vc.rootOlds = olds
	switch {
	case ct.AllocBound > 0:
		vc.allocTerm = bvConst(uint64(ct.AllocBound), 64)
	case ct.AllocExpr != nil:
		vc.allocTerm = vc.evalClauseVal(ct.AllocExpr, args, st, nil).S
	case ct.AllocBuf:
		// bytes unread in the first *bytes.Buffer parameter on entry
		for i, p := range fn.Params {
			if pt, ok := p.Type().Underlying().(*types.Pointer); ok && typeKey(pt.Elem()) == "bytes.Buffer" {
				T := eng.bufferType()
				stt := T.Underlying().(*types.Struct)
				var bf, of string
				for k := 0; k < stt.NumFields(); k++ {
					switch stt.Field(k).Name() {
					case "buf":
						bf = vc.readCell(st, vc.fieldKey(T, k), args[i].S)
					case "off":
						of = vc.readCell(st, vc.fieldKey(T, k), args[i].S)
					}
				}
				vc.allocTerm = vc.def(bvSort(64), "allocbound", app("bvsub", app("g_slen", bf), of))
				break
			}
		}
		if vc.allocTerm == "" {
			vc.note("no *bytes.Buffer parameter: allocations of " + vc.rootKey + " are not bounded by this check")
		}
	}
	vc.frame.next0 = st.next
	if ct.autoFrame() {
		vc.frame.active = true
		for i, p := range fn.Params {
			if _, ok := p.Type().Underlying().(*types.Pointer); ok {
				vc.frame.refs = append(vc.frame.refs, args[i].S)
			}
		}
	}
	if (ct.ModNothing || len(ct.Modifies) > 0) && !callsOnly {
		vc.frame.active = true
		vc.frame.strict = true
		for _, cl := range ct.Modifies {
			v := vc.evalClauseVal(cl, args, st, nil)
			vc.frame.refs = append(vc.frame.refs, vc.def(refSort, "modref", app("g_iref", v.S))+"\x01"+eng.clauseTags(cl, vc.def(bvSort(32), "modtag", app("g_itag", v.S))))
		}
	}
	entry := st.clone()
	vc.locksOn = ct.Locks
	inRun := func(ps []string) bool {
		for _, p := range ps {
			if p == eng.curProp || eng.curProp == "" || eng.curProp == "all" {
				return true
			}
		}
		return false
	}
	vc.lockObls, vc.guardObls = inRun(ct.LockProps), inRun(ct.GuardProps)
	vc.rootContract = ct
	if ct.HasAcquires {
		vc.assumeAcquires(st, ct.Acquires)
	}
	results, out, retReach := vc.execFunc(fn, args, st, "true", nil, false, ct)
	vc.lockBalance(entry, fn.Pos())
	if ct.Locks {
		vc.ifaceLevelCheck(fn, ct)
	}
	_ = results
	_ = out
	if retReach != "false" && !callsOnly {
		for k, cl := range ct.Ensures {
			if len(cl.Props) > 0 && eng.curProp != "" && eng.curProp != "all" {
				found := false
				for _, p := range cl.Props {
					if p == eng.curProp {
						found = true
					}
				}
				if !found {
					continue // this clause is an obligation of other properties only
				}
			}
			// the clause is evaluated at every return site in that site's own
			// (unmerged) state; the obligation is the conjunction
			var parts []string
			for ri, r := range vc.rootRets {
				if r.cond == "false" {
					continue
				}
				post := append(append(append([]Val{}, argsL...), r.vals...), olds...)
				g := vc.evalClause(cl, post, r.st, nil)
				if ct.Split && len(r.into) > 1 {
					// one obligation per way into this return; together (the edge
					// conditions cover the block's reachability) they are the clause
					for ei, ec := range r.into {
						gs := vc.def("Bool", "post", sImp(sAnd(r.cond, ec), g))
						o := vc.addObl("post", vc.rootKey, fmt.Sprintf("post:%s:%d/ret%d.%d", vc.rootKey, k, ri, ei), "true", gs, fn.Pos())
						o.Clause = cl.Text
						o.ClauseFn = cl.FnName
					}
					cov := vc.def("Bool", "post", sImp(r.cond, sOr(r.into...)))
					o := vc.addObl("post", vc.rootKey, fmt.Sprintf("post:%s:%d/ret%d.cover", vc.rootKey, k, ri), "true", cov, fn.Pos())
					o.Clause = "the ways into the return cover it"
					continue
				}
				parts = append(parts, sImp(r.cond, g))
			}
			if len(parts) == 0 && ct.Split {
				continue
			}
			g := vc.def("Bool", "post", sAnd(parts...))
			o := vc.addObl("post", vc.rootKey, fmt.Sprintf("post:%s:%d", vc.rootKey, k), "true", g, fn.Pos())
			o.Clause = cl.Text
			o.ClauseFn = cl.FnName
		}
	}
	c := vc.addObl("cover", vc.rootKey, "cover:"+vc.rootKey+":ret", "true", retReach, fn.Pos())
	c.ExpectSat = true
	res.Obls = vc.obls
	return
}

// nonNilParams: default (sweep) contracts require their pointer parameters
// (not the receiver, which is handled separately) to be non-nil; the
// requirement is checked at every call site.
func (ct *Contract) nonNilParams() []int {
	if !ct.Auto && !ct.NonNil || ct.Fn == nil {
		return nil
	}
	var res []int
	for i, p := range ct.Fn.Params {
		if i == 0 && ct.Fn.Signature.Recv() != nil {
			continue
		}
		if _, ok := p.Type().Underlying().(*types.Pointer); ok {
			res = append(res, i)
		}
	}
	return res
}

// autoFrame: contracts created by a sweep (and explicit ones marked nonnil
// without a modifies clause inside a sweep) get the default frame "writes only
// the objects passed by pointer and objects allocated during the call".
func (ct *Contract) autoFrame() bool {
	return ct.SweepFrame && !ct.ModNothing && len(ct.Modifies) == 0 && ct.Fn != nil
}

func (eng *Engine) verifyLemma(ct *Contract, vc *VC, st *State) {
	var sigFn *ssa.Function
	if len(ct.Ensures) > 0 {
		sigFn = ct.Ensures[0].Fn
	} else {
		panic(unsupported("lemma without ensures"))
	}
	vc.inlineAll = true
	args := make([]Val, len(sigFn.Params))
	for i, p := range sigFn.Params {
		t := p.Type()
		n := vc.fresh(vc.sorts().sortOf(t), "in_"+p.Name())
		args[i] = Val{T: t, S: n}
		vc.typingFacts(st, t, n)
		vc.inputs = append(vc.inputs, InputVar{Name: p.Name(), Term: n, T: t})
	}
	for _, cl := range ct.Requires {
		vc.assume(vc.evalClause(cl, args, st, nil))
	}
	o := vc.addObl("pre-sat", vc.rootKey, "pre-sat:"+vc.rootKey, "true", "true", sigFn.Pos())
	o.ExpectSat = true
	for k, cl := range ct.Ensures {
		g := vc.evalClause(cl, args, st, nil)
		name := fmt.Sprintf("lemma:%s:%d", strings.TrimPrefix(vc.rootKey, ct.PkgDir+".lemma:"), k)
		o := vc.addObl("lemma", vc.rootKey, name, "true", g, sigFn.Pos())
		o.Clause = cl.Text
		o.ClauseFn = cl.FnName
	}
}

// logicalType: the Go type of a logical variable, read off the elaborated
// clause functions (it is the parameter that follows the function's own).
func (eng *Engine) logicalType(ct *Contract, lg [2]string) types.Type {
	var fn *ssa.Function
	for _, o := range ct.Olds {
		if o.Clause.Fn != nil {
			fn = o.Clause.Fn
		}
	}
	for _, c := range ct.Ensures {
		if c.Fn != nil {
			fn = c.Fn
		}
	}
	if fn == nil {
		panic(unsupported("logical variable " + lg[0] + " is not used by any clause"))
	}
	for _, p := range fn.Params {
		if p.Name() == lg[0] {
			return p.Type()
		}
	}
	panic(unsupported("logical variable " + lg[0] + " not found"))
}
