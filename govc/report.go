package main

import (
	"encoding/json"
	"fmt"
	"os"
	"path/filepath"
	"sort"
	"strings"
	"time"
)

type KnownFinding struct {
	Property   string `json:"property"`
	Obligation string `json:"obligation"`
	State      string `json:"state"` // known | fixed
	What       string `json:"what"`
	Commit     string `json:"commit,omitempty"`
	Witness    string `json:"witness,omitempty"`
}

func loadKnown(verif string) []KnownFinding {
	var ks []KnownFinding
	data, err := os.ReadFile(filepath.Join(verif, "known_findings.json"))
	if err != nil {
		return nil
	}
	var doc struct {
		Findings []KnownFinding `json:"findings"`
	}
	if json.Unmarshal(data, &doc) == nil {
		ks = doc.Findings
	}
	return ks
}

type oblReport struct {
	Name    string   `json:"name"`
	Kind    string   `json:"kind"`
	Status  string   `json:"status"`
	Solver  string   `json:"solver,omitempty"`
	TimeS   float64  `json:"time_s"`
	Clause  string   `json:"clause,omitempty"`
	Pos     string   `json:"pos,omitempty"`
	Queries []string `json:"queries,omitempty"`
	Detail  string   `json:"detail,omitempty"`
}

func reportBroken(o runOpts, msg string, t0 time.Time) int {
	// The check could not run (e.g. the tree does not compile). That is not a
	// property verdict; evidence says so and the exit code is 2.
	ev := map[string]any{
		"property_id": o.prop, "tier": o.tier, "seed": o.seed, "level": "other",
		"coverage":    map[string]any{"explanation": "check could not run: " + msg},
		"assumptions": []string{}, "wall_s": time.Since(t0).Seconds(), "violations": 0,
	}
	writeJSON(evidencePath(o), ev)
	fmt.Println("CHECK-BROKEN:", msg)
	return 2
}

func writeJSON(path string, v any) {
	os.MkdirAll(filepath.Dir(path), 0o755)
	data, _ := json.MarshalIndent(v, "", " ")
	os.WriteFile(path, append(data, '\n'), 0o644)
}

// replaySpent: time spent replaying counterexamples in this run. The quick tier
// replays until 150 s are used up, the thorough tier until 1200 s; later
// violations are still reported, with the solver output, as not replayed.
var replaySpent time.Duration

func replayBudgetLeft(o runOpts) bool {
	if o.tier == "thorough" {
		return replaySpent < 1200*time.Second
	}
	return replaySpent < 150*time.Second
}

func report(eng *Engine, o runOpts, results []*FuncResult, all []*Obligation, tLoad, tGen, tSolve time.Duration, t0 time.Time, work string) int {
	known := loadKnown(o.verif)
	isKnown := func(name string) *KnownFinding {
		for i := range known {
			if known[i].Property == o.prop && known[i].Obligation == name && known[i].State == "known" {
				return &known[i]
			}
		}
		return nil
	}
	var reports []oblReport
	nObl, nDis := 0, 0
	violations := 0
	var vioLines, kfLines []string
	trusted := map[string]bool{}
	var functions []string
	var outside []string
	solverTime := 0.0
	bySolver := map[string]int{}
	var samples []any
	replayDir := filepath.Join(o.verif, "replays", o.prop)
	inlinedSet := map[string]bool{}
	guardsUndecided := []string{}
	for _, r := range results {
		functions = append(functions, r.Contract.FullKey())
		if r.Contract.Trusted {
			trusted["trusted contract (assumed, body not verified): "+r.Contract.FullKey()] = true
		}
		for a := range r.VC.assumptionsUsed {
			trusted[a] = true
		}
		for _, n := range r.VC.notes {
			trusted["imprecision: "+n] = true
		}
		for f := range r.VC.inlined {
			inlinedSet[strings.TrimPrefix(f, modulePath+"/")] = true
		}
		if r.Err != "" {
			outside = append(outside, r.Contract.FullKey()+": "+r.Err)
		}
	}
	for _, ob := range all {
		rep := oblReport{Name: ob.Name, Kind: ob.Kind, Status: ob.Status, Solver: ob.Solver, TimeS: ob.TimeS, Clause: ob.Clause, Queries: ob.Queries, Detail: ob.Detail}
		if ob.Pos.IsValid() {
			rel, _ := filepath.Rel(o.repo, ob.Pos.Filename)
			rep.Pos = fmt.Sprintf("%s:%d", rel, ob.Pos.Line)
		}
		solverTime += ob.TimeS
		kf := isKnown(ob.Name)
		switch {
		case ob.Status == "discharged":
			nObl++
			nDis++
			bySolver[ob.Solver]++
		case ob.ExpectSat && ob.Status != "violated":
			// a vacuity guard (pre-sat / cover) the solvers could not decide: not an
			// obligation of the property; listed, not counted
			rep.Status = "guard-undecided(" + ob.Status + ")"
			guardsUndecided = append(guardsUndecided, ob.Name)
		case kf != nil:
			rep.Status = "known-finding(" + ob.Status + ")"
			kfLines = append(kfLines, fmt.Sprintf("KNOWN-FINDING: property=%s %s: %s", o.prop, ob.Name, kf.What))
		default:
			nObl++
			violations++
			path := filepath.Join(replayDir, sanitize(ob.Name)+".json")
			confirmed := false
			if ob.Kind == "enum" {
				// the enumeration ran on the real code: its failing inputs are in the output
				confirmed = ob.Status == "violated"
				writeReplayFile(o, ob, path, "ENUMERATION-ON-REAL-CODE", ob.Output)
			} else if !o.noReplay && replayBudgetLeft(o) {
				tr := time.Now()
				confirmed = replayObligation(eng, o, ob, path, work)
				replaySpent += time.Since(tr)
			} else if !o.noReplay {
				writeReplayFile(o, ob, path, "not-run", "replay budget of this tier exhausted by earlier violations of the same run (the solver's answer is attached)")
			} else {
				writeReplayFile(o, ob, path, "not-run", "")
			}
			line := fmt.Sprintf("VIOLATION property=%s replay=%s obligation=%s status=%s", o.prop, path, ob.Name, ob.Status)
			if !confirmed {
				line += " no-failing-input-found"
			}
			vioLines = append(vioLines, line)
		}
		reports = append(reports, rep)
		if len(samples) < 4 && ob.Status == "discharged" && (ob.Kind == "post" || ob.Kind == "lemma" || len(samples) < 2) {
			samples = append(samples, map[string]any{"obligation": ob.Name, "clause": ob.Clause, "goal_head": truncate(ob.Goal, 300), "solver": ob.Solver})
		}
	}
	for _, e := range outside {
		// a function outside the subset: its obligations are not proved
		violations++
		nObl++
		path := filepath.Join(replayDir, sanitize("outside-subset-"+strings.SplitN(e, ":", 2)[0])+".json")
		writeJSON(path, map[string]any{"property": o.prop, "obligation": "subset:" + e, "status": "undecided", "detail": e})
		vioLines = append(vioLines, fmt.Sprintf("VIOLATION property=%s replay=%s obligation=subset:%s no-failing-input-found", o.prop, path, strings.SplitN(e, ":", 2)[0]))
	}
	var boundedRep []map[string]any
	for _, br := range eng.boundedResults {
		boundedRep = append(boundedRep, map[string]any{"name": br.Name, "label": "bounded (not a proof; not counted as discharged)", "bound": br.Bound, "status": br.Status, "cases": br.Cases, "time_s": br.Secs, "output": br.Output})
		if br.Status != "held" {
			violations++
			path := filepath.Join(replayDir, sanitize(br.Name)+".json")
			writeJSON(path, map[string]any{"property": o.prop, "obligation": br.Name, "kind": "bounded", "bound": br.Bound, "status": br.Status, "output": br.Output,
				"replay": "the failing input is printed by the bounded harness (bounded/" + o.prop + "); run ./check " + o.prop + " quick again to reproduce"})
			line := fmt.Sprintf("VIOLATION property=%s replay=%s obligation=%s status=%s", o.prop, path, br.Name, br.Status)
			if br.Status != "violated" {
				line += " no-failing-input-found"
			}
			vioLines = append(vioLines, line)
		}
	}
	if len(all) == 0 {
		violations++
		vioLines = append(vioLines, fmt.Sprintf("VIOLATION property=%s replay=%s obligation=vacuity:no-obligations no-failing-input-found", o.prop, filepath.Join(replayDir, "vacuity.json")))
	}
	sort.Strings(functions)
	var tb []string
	for t := range trusted {
		tb = append(tb, t)
	}
	sort.Strings(tb)
	if tb == nil {
		tb = []string{}
	}
	if kfLines == nil {
		kfLines = []string{}
	}
	if outside == nil {
		outside = []string{}
	}
	base := []string{
		"sequential semantics: the body of a function is executed by one thread; interference only at modelled lock boundaries",
		"machine integers exact (bit-vectors of the Go width); floating point uninterpreted",
		"memory model: typed heaps (Burstall/Bornat), no unsafe, no aliasing between differently typed pointers",
		"history properties: invariants proved per operation are lifted to all histories by induction on the length of the history (not mechanised)",
		"solvers z3 4.8.12 / z3 5.1.0 / cvc5 1.0 are trusted",
		"generator govc (this tool) is trusted; validated by the must-fail self-test corpus",
	}
	ev := map[string]any{
		"property_id": o.prop, "tier": o.tier, "seed": o.seed, "level": "proof",
		"coverage": map[string]any{
			"obligations": nObl, "discharged": nDis,
			"checker_cmd":   fmt.Sprintf("./check %s %s", o.prop, o.tier),
			"trusted_base":  tb,
			"functions_under_contract": functions,
			"functions_verified_by_inlining": sortedKeys(inlinedSet),
			"by_solver":     bySolver,
			"solver_time_s": solverTime,
			"load_s":        tLoad.Seconds(), "vcgen_s": tGen.Seconds(), "solve_wall_s": tSolve.Seconds(),
			"known_findings": kfLines,
			"vacuity_guards_undecided": guardsUndecided,
			"outside_subset": outside,
			"obligation_list": reports,
			"samples":       samples,
			"contract_source": contractSources(eng),
			"bounded_stand_ins": boundedRep,
		},
		"assumptions": append(base, tb...),
		"wall_s":      time.Since(t0).Seconds(),
		"violations":  violations,
	}
	writeJSON(evidencePath(o), ev)
	if o.verbose {
		for _, r := range reports {
			fmt.Printf("  %-70s %-12s %-8s %.2fs %s\n", r.Name, r.Status, r.Solver, r.TimeS, strings.Join(r.Queries, " "))
		}
	}
	if os.Getenv("GOVC_SUMMARY") != "" {
		// development aid: failures grouped by function and kind
		agg := map[string]int{}
		for _, r := range reports {
			if r.Status != "discharged" {
				parts := strings.SplitN(r.Name, "#", 2)
				agg[parts[0]+" ["+r.Status+"]"]++
			}
		}
		for _, k := range sortedKeys(agg) {
			fmt.Printf("  %4d  %s\n", agg[k], k)
		}
		for _, e := range outside {
			fmt.Println("  outside:", e)
		}
		fmt.Printf("property %s: %d obligations, %d discharged, %d violations; load %.1fs gen %.1fs solve %.1fs\n", o.prop, nObl, nDis, violations, tLoad.Seconds(), tGen.Seconds(), tSolve.Seconds())
		if violations > 0 {
			return 1
		}
		return 0
	}
	for _, l := range kfLines {
		fmt.Println(l)
	}
	for _, l := range vioLines {
		fmt.Println(l)
	}
	fmt.Printf("property %s tier %s: %d obligations, %d discharged, %d known findings, %d violations; load %.1fs gen %.1fs solve %.1fs\n",
		o.prop, o.tier, nObl, nDis, len(kfLines), violations, tLoad.Seconds(), tGen.Seconds(), tSolve.Seconds())
	if violations > 0 {
		return 1
	}
	return 0
}

func contractSources(eng *Engine) map[string]string {
	m := map[string]string{}
	for d, ps := range eng.specs {
		m[d] = ps.source
	}
	return m
}

func sanitize(s string) string {
	var b strings.Builder
	for _, c := range s {
		switch {
		case c >= 'a' && c <= 'z', c >= 'A' && c <= 'Z', c >= '0' && c <= '9', c == '-', c == '_', c == '.':
			b.WriteRune(c)
		default:
			b.WriteByte('_')
		}
	}
	return b.String()
}

func writeReplayFile(o runOpts, ob *Obligation, path, status, extra string) {
	doc := map[string]any{
		"property": o.prop, "obligation": ob.Name, "kind": ob.Kind, "function": ob.Fn,
		"clause": ob.Clause, "solver_status": ob.Status, "solver": ob.Solver, "queries": ob.Queries,
		"solver_output": truncate(ob.Output, 4000), "model": ob.Model, "replay_status": status, "replay_output": extra,
	}
	if ob.Pos.IsValid() {
		doc["pos"] = fmt.Sprintf("%s:%d", ob.Pos.Filename, ob.Pos.Line)
	}
	writeJSON(path, doc)
}

// evidencePath: a partial run (-only) is a debugging aid, not a check of the
// property: its record goes next to the work files, never over the evidence.
func evidencePath(o runOpts) string {
	if o.only != "" {
		return filepath.Join(o.verif, ".work", "partial-"+o.prop+".json")
	}
	return filepath.Join(o.verif, "evidence", o.prop+".json")
}
