#!/usr/bin/env python3
"""Regenerates MANIFEST.json from props.json (claimed properties) and properties.jsonl (ids)."""
import json, subprocess
props = [json.loads(l) for l in open('/verif/properties.jsonl')]
meta = json.load(open('/verif/props.json'))
hooks = subprocess.run(['git','-C','/repo','log','--format=%H %s'],capture_output=True,text=True).stdout.splitlines()
hook_commits = [l.split()[0] for l in hooks if ' verif hook:' in l]
checks, na = [], []
for p in props:
    pid = p['id']
    m = meta.get(pid)
    if m and m.get('claimed'):
        checks.append({
            "property_id": pid,
            "quick_cmd": f"./check {pid} quick",
            "thorough_cmd": f"./check {pid} thorough",
            "evidence_file": f"/verif/evidence/{pid}.json",
            "replay_cmd_template": "./check %s --replay {path}" % pid,
            "engine": "govc",
            "level_claimed": {"category": "proof", "text": m['text'], "design_ref": m.get('design_ref', 'DESIGN.md section 4, ' + pid)},
            "level_note": m['note'],
            "technique": m.get('technique', "contract-based deductive verification: weakest-precondition style VCs generated from go/ssa of the real code, contracts as //@ comments, discharged by z3/cvc5"),
        })
    else:
        na.append({"property_id": pid, "reason": (m or {}).get('reason', 'no check built yet in this round (see DESIGN.md section 4 for the plan)')})
man = {
    "version": 1,
    "setup_cmd": "./setup.sh",
    "hooks": {
        "guard": "verif",
        "enable": "go build/test -tags verif (contracts are comment-only files <pkg>/zz_contracts_verif.go; the verifier loads /repo with -tags=verif and supplies the elaborated contract functions through an overlay)",
        "baseline_off_cmd": "cd /repo && go test -mod=mod -vet=off -count=1 -timeout 25m ./...",
        "source_commits": hook_commits,
        "add_only": True,
    },
    "engines": [{"name": "govc", "path": "/verif/govc", "serves_properties": [c['property_id'] for c in checks],
                 "kind_free_text": "home-built verification-condition generator for Go (go/packages + go/ssa, bit-vector semantics, typed heaps, contracts as comments) with z3 4.8.12 / z3 5.1.0 / cvc5 1.0 as back ends and counterexample replay through go test -overlay"}],
    "checks": checks,
    "not_applicable": na,
    "notes": "See DESIGN.md (section 0 is the status as built). Known findings and fixes: known_findings.json (demonstrations of the concurrency findings: findings_demo/). Seeded changes used to test the checks: seeded/ (RESULTS.md); must-fail self-test: selftest/. Hook commits ('verif hook:') touch only files they add themselves, <pkg>/zz_contracts_verif.go (comment-only, build tag verif; later hook commits edit those files); no line of the repository's own code is touched by a hook commit. Repairs of defects are the separate 'fix:' commits.",
}
json.dump(man, open('/verif/MANIFEST.json','w'), indent=1)
print(len(checks), "claimed;", len(na), "not applicable")
