//go:build verif

package device

// Contracts for govc (contract-based deductive verification, see /verif/DESIGN.md).
// Comments only; compiled only with the build tag "verif".

// Reading a device's state changes nothing (property C33).
//@ contract DeviceInterface.GetOperState
//@   props C33
//@   modifies nothing
