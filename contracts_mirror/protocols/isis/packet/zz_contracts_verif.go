//go:build verif

package packet

// Contracts for govc (contract-based deductive verification, see /verif/DESIGN.md).
// Comments only; compiled only with the build tag "verif".

// Property C30: decoding an IS-IS PDU never panics.
//@ sweep Decode props C30

//@ contract Decode
//@   props C30
//@   requires buf != nil
