//go:build verif

package packet

// Contracts for govc (contract-based deductive verification, see /verif/DESIGN.md).
// Comments only; compiled only with the build tag "verif".

// Property C30: decoding an IS-IS PDU never panics.
//@ sweep Decode props C30

//@ contract Decode
//@   props C30
//@   requires buf != nil

// An LSP entries TLV (CSNP/PSNP) of n*16 bytes yields n entries, for every n up
// to the 15 that fit a TLV: the remaining-length counter must not lose the high
// bit of the length octet.
//@ contract readLSPEntriesTLV
//@   props C30
//@   nonnil
//@   ensures result1 == nil && tlvLength%16 == 0 ==> result0 != nil && len(result0.LSPEntries) == int(tlvLength)/16
//@   loop 0 vars toRead uint8, pdu *LSPEntriesTLV
//@   loop 0 invariant pdu != nil && verif_fresh(pdu) && (tlvLength%16 == 0 ==> toRead%16 == 0 && int(toRead)+16*len(pdu.LSPEntries) == int(tlvLength))
