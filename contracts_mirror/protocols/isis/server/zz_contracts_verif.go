//go:build verif

package server

// Contracts for govc (contract-based deductive verification, see /verif/DESIGN.md).
// Comments only; compiled only with the build tag "verif".

// Property C33: an interface survives any sequence of link up / link down
// events. The representation invariant of a network interface: it is marked
// initialized exactly while it holds an ethernet handle and an open "done"
// channel (what the hello sender and the receiver wait on); a passive interface
// is never initialized. Every operation preserves it, none closes a closed
// channel or uses a handle it does not have, and an active interface that is
// started while down ends up initialized (sending hellos again).
//@ spec
//@ func spec_ifaInv(n *netIfa) bool {
//@ 	return n.cfg != nil && n.srv != nil && n.srv.ethernetInterfaceFactory != nil && n.done != nil &&
//@ 		(!n.initialized || (n.ethernetInterface != nil && !verif_chclosed(n.done) && !n.cfg.Passive))
//@ }
//@ end

// The LSP regeneration, the neighbor managers, the goroutines and the ethernet
// layer are outside these contracts: they do not write the interface object.
//@ contract (*Server).updateL2LSP, (*neighborManager).netDown
//@   props C33
//@   trusted does not write the netIfa object or close its channel
//@   modifies nothing

//@ contract (*netIfa)._stop
//@   props C33
//@   nosafety except close
//@   call Close args recv ethernet.EthernetInterfaceI requires recv != nil
//@   requires nifa != nil && spec_ifaInv(nifa)
//@   ensures spec_ifaInv(nifa) && !nifa.initialized

//@ contract (*netIfa)._start
//@   props C33
//@   nosafety except close
//@   call MCastJoin args recv ethernet.EthernetInterfaceI requires recv != nil
//@   requires nifa != nil && spec_ifaInv(nifa)
//@   old wasInit bool = nifa.initialized
//@   ensures spec_ifaInv(nifa)
//@   ensures result == nil && !nifa.cfg.Passive ==> nifa.initialized
//@   ensures !wasInit && result != nil ==> !nifa.initialized

//@ contract (*netIfa).DeviceUpdate
//@   props C33
//@   nosafety except close
//@   requires nifa != nil && dev != nil && spec_ifaInv(nifa)
//@   ensures spec_ifaInv(nifa)
//@   ensures nifa.devStatus == dev

//@ contract (*netIfa).stop
//@   props C33
//@   nosafety except close
//@   requires nifa != nil && spec_ifaInv(nifa)
//@   ensures spec_ifaInv(nifa) && !nifa.initialized

// Property C31 (the part one hello decides): the adjacency state is changed by
// a hello only to Up, and only when its three-way TLV lists this system and
// circuit and the adjacency is not Up; or to Down, and only when the TLV does
// not list them and the adjacency is Up. A hello without the TLV changes nothing.
// Which three-way TLV a hello carries is a function of its TLV list.
//@ import "github.com/bio-routing/bio-rd/protocols/isis/types"
//@ contract getP2PAdjTLV
//@   props C31
//@   trusted the three-way adjacency TLV found in a TLV list (presence, neighbor system ID, neighbor circuit ID) is a function of that list; the list walk with its type assertion is not verified
//@   ensures (result == nil) == (verif_uf_u64("adjTLVpresent", verif_arrayof(tlvs)) == 0)
//@   ensures result != nil ==> result.NeighborSystemID == verif_uf_val[types.SystemID]("adjTLVsys", verif_arrayof(tlvs)) && result.NeighborExtendedLocalCircuitID == uint32(verif_uf_u64("adjTLVcirc", verif_arrayof(tlvs)))
//@   modifies nothing

//@ spec
//@ func spec_tlvPresent(hello *packet.P2PHello) bool {
//@ 	return verif_uf_u64("adjTLVpresent", verif_arrayof(hello.TLVs)) != 0
//@ }
//@ func spec_tlvListsSelf(n *neighbor, hello *packet.P2PHello) bool {
//@ 	return verif_uf_val[types.SystemID]("adjTLVsys", verif_arrayof(hello.TLVs)) == n.nm.netIfa.srv.nets[0].SystemID && uint32(verif_uf_u64("adjTLVcirc", verif_arrayof(hello.TLVs))) == uint32(n.nm.netIfa.devStatus.GetIndex())
//@ }
//@ end

//@ contract (*neighbor).processP2PHello
//@   props C31
//@   nosafety
//@   requires n != nil && hello != nil
//@   old st0 uint8 = n.state
//@   ensures spec_tlvPresent(hello) && spec_tlvListsSelf(n, hello) ==> n.state == packet.P2PAdjStateUp
//@   ensures spec_tlvPresent(hello) && !spec_tlvListsSelf(n, hello) ==> n.state != packet.P2PAdjStateUp
//@   ensures !spec_tlvPresent(hello) ==> n.state == st0
//@   counts updateTimeout
//@   old c0 int = verif_calls(n)
//@   ensures verif_calls(n) - c0 >= 1
//@   call setState args s uint8 vars p2pAdjState *packet.P2PAdjacencyStateTLV requires p2pAdjState != nil && ((s == packet.P2PAdjStateUp && n.state != packet.P2PAdjStateUp && n.p2pAdjTLVContainsSelf(p2pAdjState)) || (s == packet.P2PAdjStateDown && n.state == packet.P2PAdjStateUp && !n.p2pAdjTLVContainsSelf(p2pAdjState)))

// The periodic check takes an adjacency Down only from Up, and never gives up
// a neighbor that is Up (the property lets a neighbor disappear whether or not
// it ever came Up, so Init is not excluded here; see DESIGN.md, C31, for what
// the code does with a neighbor that stays in Init).
//@ contract (*neighbor).adjChecker
//@   props C31
//@   nosafety
//@   requires n != nil
//@   call down vars state uint8 requires state == packet.P2PAdjStateUp
//@   call dispose vars state uint8 requires state != packet.P2PAdjStateUp

// A neighbor created from a first hello is not Up: it starts in Init, with the
// sender's system ID and address.
//@ contract (*neighborManager).neighborFromP2PHello
//@   props C31
//@   nosafety
//@   requires nm != nil && hello != nil
//@   ensures result != nil && result.state == packet.P2PAdjStateInit && result.sysID == hello.SystemID && result.addr == addr && result.nm == nm

// The neighbors advertised in the local LSP are taken from this list: every
// neighbor in it is Up.
//@ contract (*neighborManager).getNeighborsUp
//@   props C31
//@   nosafety
//@   requires nm != nil
//@   ensures forall(k, 0, len(result), result[k].state == packet.P2PAdjStateUp)
//@   modifies nothing
//@   loop 0 vars ret []*neighbor
//@   loop 0 invariant verif_freshslice(ret) && forall(k, 0, len(ret), ret[k].state == packet.P2PAdjStateUp)

// The first hello of a sender only creates the neighbor (in Init, nothing is
// processed further: nil is returned); later hellos find that neighbor.
//@ spec
//@ func spec_hasNb(nm *neighborManager, src ethernet.MACAddr) bool {
//@ 	_, ok := nm.neighbors[src]
//@ 	return ok
//@ }
//@ end
//@ contract (*neighborManager).addNeighborIfNotExists
//@   props C31
//@   nosafety
//@   requires nm != nil && hello != nil && nm.neighbors != nil
//@   old had bool = spec_hasNb(nm, src)
//@   old nb *neighbor = nm.neighbors[src]
//@   ensures had ==> result == nb && nm.neighbors[src] == nb
//@   ensures !had ==> result == nil && spec_hasNb(nm, src) && nm.neighbors[src] != nil && nm.neighbors[src].state == packet.P2PAdjStateInit

// Property C32 (the part one received LSP decides): after an LSP has been
// processed the database holds, for its LSP ID, a copy whose sequence number is
// the higher of the stored and the received one - the received LSP itself when
// it is newer or the ID was unknown, the stored entry otherwise - and no other
// LSP ID is touched. Flags (ISO 10589 7.3.15/16): a newer LSP is acknowledged
// to the sender (SSN set, SRM cleared on that interface); the same LSP likewise;
// an older one is answered with the stored copy (SRM set unless the interface
// cannot send, SSN cleared).
//@ spec
//@ func spec_hasLSP(l *lsdb, id packet.LSPID) bool {
//@ 	_, ok := l.lsps[id]
//@ 	return ok
//@ }
//@ func spec_ssn(e *lsdbEntry, ifa *netIfa) bool {
//@ 	_, ok := e.ssnFlags[ifa]
//@ 	return ok
//@ }
//@ func spec_srm(e *lsdbEntry, ifa *netIfa) bool {
//@ 	_, ok := e.srmFlags[ifa]
//@ 	return ok
//@ }
//@ end

//@ contract (*lsdb).processNewerLSPDU
//@   props C32
//@   nosafety
//@   requires l != nil && lspdu != nil && l.lsps != nil && ifa != nil
//@   logical g packet.LSPID
//@   old hadg bool = spec_hasLSP(l, g)
//@   old eg *lsdbEntry = l.lsps[g]
//@   ensures spec_hasLSP(l, lspdu.LSPID) && l.lsps[lspdu.LSPID] != nil && l.lsps[lspdu.LSPID].lspdu == lspdu
//@   ensures spec_ssn(l.lsps[lspdu.LSPID], ifa) && !spec_srm(l.lsps[lspdu.LSPID], ifa)
//@   ensures g != lspdu.LSPID ==> spec_hasLSP(l, g) == hadg && l.lsps[g] == eg

//@ contract (*lsdbEntry).processSameLSPDU
//@   props C32
//@   nosafety
//@   requires l != nil && l.ssnFlags != nil && l.srmFlags != nil && verif_mapid(l.ssnFlags) != verif_mapid(l.srmFlags)
//@   old d *packet.LSPDU = l.lspdu
//@   ensures spec_ssn(l, ifa) && !spec_srm(l, ifa) && l.lspdu == d

//@ contract (*lsdbEntry).newerLocalLSPDU
//@   props C32
//@   nosafety
//@   requires l != nil && l.ssnFlags != nil && l.srmFlags != nil && ifa != nil && ifa.cfg != nil && l.lspdu != nil
//@   old d *packet.LSPDU = l.lspdu
//@   ensures !spec_ssn(l, ifa) && l.lspdu == d

//@ contract (*lsdb).processLSP
//@   props C32
//@   nosafety
//@   requires l != nil && lspdu != nil && l.lsps != nil && ifa != nil && ifa.cfg != nil
//@   requires spec_hasLSP(l, lspdu.LSPID) ==> l.lsps[lspdu.LSPID] != nil && l.lsps[lspdu.LSPID].lspdu != nil && l.lsps[lspdu.LSPID].ssnFlags != nil && l.lsps[lspdu.LSPID].srmFlags != nil && verif_mapid(l.lsps[lspdu.LSPID].ssnFlags) != verif_mapid(l.lsps[lspdu.LSPID].srmFlags)
//@   logical g packet.LSPID
//@   old hadg bool = spec_hasLSP(l, g)
//@   old eg *lsdbEntry = l.lsps[g]
//@   old had bool = spec_hasLSP(l, lspdu.LSPID)
//@   old e0 *lsdbEntry = l.lsps[lspdu.LSPID]
//@   old seq0 uint32 = ite(spec_hasLSP(l, lspdu.LSPID), l.lsps[lspdu.LSPID].lspdu.SequenceNumber, 0)
//@   ensures spec_hasLSP(l, lspdu.LSPID) && l.lsps[lspdu.LSPID] != nil && l.lsps[lspdu.LSPID].lspdu != nil
//@   ensures !had || lspdu.SequenceNumber > seq0 ==> l.lsps[lspdu.LSPID].lspdu == lspdu
//@   ensures had && lspdu.SequenceNumber <= seq0 ==> l.lsps[lspdu.LSPID] == e0 && l.lsps[lspdu.LSPID].lspdu.SequenceNumber == seq0
//@   ensures had && lspdu.SequenceNumber < seq0 ==> !spec_ssn(l.lsps[lspdu.LSPID], ifa)
//@   ensures !had || lspdu.SequenceNumber >= seq0 ==> spec_ssn(l.lsps[lspdu.LSPID], ifa) && !spec_srm(l.lsps[lspdu.LSPID], ifa)
//@   ensures g != lspdu.LSPID ==> spec_hasLSP(l, g) == hadg && l.lsps[g] == eg
//@   ensures l.srv != nil && len(l.srv.nets) > 0 && l.srv.nets[0] != nil && lspdu.LSPID.SystemID == l.srv.nets[0].SystemID ==> l.srv.sequenceNumberL2 >= lspdu.SequenceNumber

// The local sequence number never goes down; after seeing a copy of the own
// LSP it is at least that copy's number (the next LSP is numbered above it).
//@ contract (*Server).raiseL2SequenceNumber
//@   props C32
//@   nosafety
//@   requires s != nil
//@   old n uint32 = s.sequenceNumberL2
//@   ensures s.sequenceNumberL2 >= seen && s.sequenceNumberL2 >= n && result == (seen > n)

// One entry of a received CSNP (ISO 10589 7.3.15.2 b): same as stored - no
// need to send it (SRM cleared); stored copy newer - send it, nothing to
// request (SSN cleared); stored copy older - request the newer one (SSN set,
// SRM cleared); unknown - remember it with sequence number 0 and request it.
//@ contract (*lsdb).processCSNPLSPEntry
//@   props C32
//@   nosafety
//@   requires l != nil && lspEntry != nil && l.lsps != nil && from != nil && from.cfg != nil
//@   requires spec_hasLSP(l, lspEntry.LSPID) ==> l.lsps[lspEntry.LSPID] != nil && l.lsps[lspEntry.LSPID].lspdu != nil && l.lsps[lspEntry.LSPID].ssnFlags != nil && l.lsps[lspEntry.LSPID].srmFlags != nil && verif_mapid(l.lsps[lspEntry.LSPID].ssnFlags) != verif_mapid(l.lsps[lspEntry.LSPID].srmFlags)
//@   requires !spec_hasLSP(l, lspEntry.LSPID) ==> l.lsps[lspEntry.LSPID] == nil
//@   old had bool = spec_hasLSP(l, lspEntry.LSPID)
//@   old e0 *lsdbEntry = l.lsps[lspEntry.LSPID]
//@   old seq0 uint32 = ite(spec_hasLSP(l, lspEntry.LSPID), l.lsps[lspEntry.LSPID].lspdu.SequenceNumber, 0)
//@   ensures spec_hasLSP(l, lspEntry.LSPID) && l.lsps[lspEntry.LSPID] != nil && l.lsps[lspEntry.LSPID].lspdu != nil
//@   ensures !had ==> l.lsps[lspEntry.LSPID].lspdu.SequenceNumber == 0 && l.lsps[lspEntry.LSPID].lspdu.LSPID == lspEntry.LSPID && spec_ssn(l.lsps[lspEntry.LSPID], from)
//@   ensures had ==> l.lsps[lspEntry.LSPID] == e0 && e0.lspdu.SequenceNumber == seq0
//@   ensures had && seq0 == lspEntry.SequenceNumber && e0.lspdu.LSPID == lspEntry.LSPID ==> !spec_srm(e0, from)
//@   ensures had && seq0 > lspEntry.SequenceNumber ==> !spec_ssn(e0, from)
//@   ensures had && seq0 < lspEntry.SequenceNumber ==> spec_ssn(e0, from) && !spec_srm(e0, from)
//@   logical g packet.LSPID
//@   old hadg bool = spec_hasLSP(l, g)
//@   old eg *lsdbEntry = l.lsps[g]
//@   old dg *packet.LSPDU = l.lsps[g].lspdu
//@   old seqg uint32 = ite(l.lsps[g] != nil && l.lsps[g].lspdu != nil, l.lsps[g].lspdu.SequenceNumber, 0)
//@   ensures hadg ==> spec_hasLSP(l, g) && l.lsps[g] == eg
//@   ensures hadg && eg != nil && dg != nil ==> eg.lspdu == dg && dg.SequenceNumber == seqg
//@   ensures !hadg && g != lspEntry.LSPID ==> !spec_hasLSP(l, g)
//@   ensures !hadg && spec_hasLSP(l, g) ==> l.lsps[g] != nil && l.lsps[g].lspdu != nil && l.lsps[g].lspdu.SequenceNumber == 0

// A whole CSNP (both passes): no LSP is removed, no stored copy is swapped or
// renumbered, and an LSP ID that appears in the database because of the CSNP is
// a placeholder with sequence number 0 (to be requested), never a usable copy.
// Stated for an arbitrary LSP ID g as an invariant of both loops.
//@ contract (*lsdb).processCSNP
//@   props C32
//@   nosafety
//@   requires l != nil && csnp != nil && l.lsps != nil && from != nil && from.cfg != nil
//@   logical g packet.LSPID
//@   old hadg bool = spec_hasLSP(l, g)
//@   old eg *lsdbEntry = l.lsps[g]
//@   old dg *packet.LSPDU = l.lsps[g].lspdu
//@   old seqg uint32 = ite(l.lsps[g] != nil && l.lsps[g].lspdu != nil, l.lsps[g].lspdu.SequenceNumber, 0)
//@   loop 0 invariant (hadg ==> spec_hasLSP(l, g) && l.lsps[g] == eg) && (hadg && eg != nil && dg != nil ==> eg.lspdu == dg && dg.SequenceNumber == seqg) && (!hadg && spec_hasLSP(l, g) ==> l.lsps[g] != nil && l.lsps[g].lspdu != nil && l.lsps[g].lspdu.SequenceNumber == 0)
//@   loop 1 invariant (hadg ==> spec_hasLSP(l, g) && l.lsps[g] == eg) && (hadg && eg != nil && dg != nil ==> eg.lspdu == dg && dg.SequenceNumber == seqg) && (!hadg && spec_hasLSP(l, g) ==> l.lsps[g] != nil && l.lsps[g].lspdu != nil && l.lsps[g].lspdu.SequenceNumber == 0)
//@   ensures hadg ==> spec_hasLSP(l, g) && l.lsps[g] == eg
//@   ensures hadg && eg != nil && dg != nil ==> eg.lspdu == dg && dg.SequenceNumber == seqg
//@   ensures !hadg && spec_hasLSP(l, g) ==> l.lsps[g] != nil && l.lsps[g].lspdu != nil && l.lsps[g].lspdu.SequenceNumber == 0

// One aging tick (property C32: a copy is kept "until it ages out"): aging never
// adds an LSP, never swaps a stored entry and never rejuvenates one - the
// remaining lifetime of every LSP still stored is at most what it was, and
// where it changed it is still at least 1 (a lifetime that would reach 0 or
// wrap below it means the entry is removed instead). Stated for an arbitrary
// LSP ID g (logical variable) as an invariant of the loop over the database;
// the map range model visits present keys in any order and possibly more than
// once, which this invariant tolerates.
//@ contract (*lsdb).decrementRemainingLifetimes
//@   props C32
//@   nosafety
//@   requires l != nil && l.lsps != nil && l.srv != nil
//@   logical g packet.LSPID
//@   old hadg bool = spec_hasLSP(l, g)
//@   old okg bool = l.lsps[g] != nil && l.lsps[g].lspdu != nil
//@   old eg *lsdbEntry = l.lsps[g]
//@   old lifeg uint16 = ite(spec_hasLSP(l, g), l.lsps[g].lspdu.RemainingLifetime, 0)
//@   loop 0 invariant okg && spec_hasLSP(l, g) ==> hadg && l.lsps[g] == eg && eg.lspdu != nil && eg.lspdu.RemainingLifetime <= lifeg && (eg.lspdu.RemainingLifetime == lifeg || eg.lspdu.RemainingLifetime >= 1)
//@   ensures okg && spec_hasLSP(l, g) ==> hadg && l.lsps[g] == eg && eg.lspdu.RemainingLifetime <= lifeg && (eg.lspdu.RemainingLifetime == lifeg || eg.lspdu.RemainingLifetime >= 1)

// A received PSNP (ISO 10589 7.3.17) only acknowledges: it adds and removes no
// LSP, swaps no stored copy, sets no flag and touches no flag other than SRM of
// the interface it came in on. Stated for an arbitrary LSP ID g and interface i,
// assuming that no two entries share a flag map (newLSDBEntry/newEmptyLSDBEntry
// make fresh ones).
//@ contract (*lsdb).processPSNP
//@   props C32
//@   nosafety
//@   requires l != nil && psnp != nil && l.lsps != nil && from != nil
//@   logical g packet.LSPID
//@   logical i *netIfa
//@   old hadg bool = spec_hasLSP(l, g)
//@   old eg *lsdbEntry = l.lsps[g]
//@   old okg bool = l.lsps[g] != nil && l.lsps[g].lspdu != nil && l.lsps[g].ssnFlags != nil && l.lsps[g].srmFlags != nil && verif_mapid(l.lsps[g].ssnFlags) != verif_mapid(l.lsps[g].srmFlags) && all(e *lsdbEntry, e == nil || e == l.lsps[g] || (verif_mapid(e.srmFlags) != verif_mapid(l.lsps[g].ssnFlags) && verif_mapid(e.srmFlags) != verif_mapid(l.lsps[g].srmFlags)))
//@   old dg *packet.LSPDU = l.lsps[g].lspdu
//@   old seqg uint32 = ite(l.lsps[g] != nil && l.lsps[g].lspdu != nil, l.lsps[g].lspdu.SequenceNumber, 0)
//@   old ssng bool = l.lsps[g] != nil && spec_ssn(l.lsps[g], i)
//@   old srmg bool = l.lsps[g] != nil && spec_srm(l.lsps[g], i)
//@   loop 0 invariant spec_hasLSP(l, g) == hadg && l.lsps[g] == eg
//@   loop 0 invariant okg ==> eg.lspdu == dg && dg.SequenceNumber == seqg && spec_ssn(eg, i) == ssng && (spec_srm(eg, i) ==> srmg) && (i != from ==> spec_srm(eg, i) == srmg)
//@   ensures spec_hasLSP(l, g) == hadg && l.lsps[g] == eg
//@   ensures okg ==> eg.lspdu == dg && dg.SequenceNumber == seqg && spec_ssn(eg, i) == ssng && (spec_srm(eg, i) ==> srmg) && (i != from ==> spec_srm(eg, i) == srmg)

// The local LSP's sequence number grows by one per generation and is never 0.
//@ contract (*Server).nextL2SequencenNumber
//@   props C32
//@   nosafety
//@   requires s != nil
//@   old n uint32 = s.sequenceNumberL2
//@   ensures result != 0 && result == ite(n+1 == 0, 1, n+1) && s.sequenceNumberL2 == result

// Every hello sets the hold deadline it announces (a shorter holding time takes
// effect at once).
//@ contract (*neighbor).updateTimeout
//@   props C31
//@   nosafety
//@   requires n != nil
//@   ensures n.timeout == to

// Collecting what is to be acknowledged on one interface reads the flags; it
// clears none (they are cleared for all interfaces together after every
// interface has had its PSNPs), so an LSP received on two circuits is
// acknowledged on both.
//@ contract (*lsdb)._getLSPWithSSNSet
//@   props C32
//@   nosafety
//@   requires l != nil
//@   modifies nothing
//@   loop 0 vars ret []*packet.LSPEntry
//@   loop 0 invariant verif_freshslice(ret)
