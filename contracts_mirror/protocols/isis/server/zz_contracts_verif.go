//go:build verif

package server

// Contracts for govc (contract-based deductive verification, see /verif/DESIGN.md).
// Comments only; compiled only with the build tag "verif".

// Property C33: an interface survives any sequence of link up / link down
// events. The representation invariant of a network interface: it is marked
// initialized exactly while it holds an ethernet handle and an open "done"
// channel (what the hello sender and the receiver wait on); a passive interface
// is never initialized. Every operation preserves it, none closes a closed
// channel or uses a handle it does not have, and an active interface that is
// started while down ends up initialized (sending hellos again).
//@ spec
//@ func spec_ifaInv(n *netIfa) bool {
//@ 	return n.cfg != nil && n.srv != nil && n.srv.ethernetInterfaceFactory != nil && n.done != nil &&
//@ 		(!n.initialized || (n.ethernetInterface != nil && !verif_chclosed(n.done) && !n.cfg.Passive))
//@ }
//@ end

// The LSP regeneration, the neighbor managers, the goroutines and the ethernet
// layer are outside these contracts: they do not write the interface object.
//@ contract (*Server).updateL2LSP, (*neighborManager).netDown
//@   props C33
//@   trusted does not write the netIfa object or close its channel
//@   modifies nothing

//@ contract (*netIfa)._stop
//@   props C33
//@   nosafety except close
//@   call Close args recv ethernet.EthernetInterfaceI requires recv != nil
//@   requires nifa != nil && spec_ifaInv(nifa)
//@   ensures spec_ifaInv(nifa) && !nifa.initialized

//@ contract (*netIfa)._start
//@   props C33
//@   nosafety except close
//@   call MCastJoin args recv ethernet.EthernetInterfaceI requires recv != nil
//@   requires nifa != nil && spec_ifaInv(nifa)
//@   old wasInit bool = nifa.initialized
//@   ensures spec_ifaInv(nifa)
//@   ensures result == nil && !nifa.cfg.Passive ==> nifa.initialized
//@   ensures !wasInit && result != nil ==> !nifa.initialized

//@ contract (*netIfa).DeviceUpdate
//@   props C33
//@   nosafety except close
//@   requires nifa != nil && dev != nil && spec_ifaInv(nifa)
//@   ensures spec_ifaInv(nifa)
//@   ensures nifa.devStatus == dev

//@ contract (*netIfa).stop
//@   props C33
//@   nosafety except close
//@   requires nifa != nil && spec_ifaInv(nifa)
//@   ensures spec_ifaInv(nifa) && !nifa.initialized
