//go:build verif

package server

// Contracts for govc (contract-based deductive verification, see /verif/DESIGN.md).
// Comments only; compiled only with the build tag "verif".

// Property C33: an interface survives any sequence of link up / link down
// events. The representation invariant of a network interface: it is marked
// initialized exactly while it holds an ethernet handle and an open "done"
// channel (what the hello sender and the receiver wait on); a passive interface
// is never initialized. Every operation preserves it, none closes a closed
// channel or uses a handle it does not have, and an active interface that is
// started while down ends up initialized (sending hellos again).
//@ spec
//@ func spec_ifaInv(n *netIfa) bool {
//@ 	return n.cfg != nil && n.srv != nil && n.srv.ethernetInterfaceFactory != nil && n.done != nil &&
//@ 		(!n.initialized || (n.ethernetInterface != nil && !verif_chclosed(n.done) && !n.cfg.Passive))
//@ }
//@ end

// The LSP regeneration, the neighbor managers, the goroutines and the ethernet
// layer are outside these contracts: they do not write the interface object.
//@ contract (*Server).updateL2LSP, (*neighborManager).netDown
//@   props C33
//@   trusted does not write the netIfa object or close its channel
//@   modifies nothing

//@ contract (*netIfa)._stop
//@   props C33
//@   nosafety except close
//@   call Close args recv ethernet.EthernetInterfaceI requires recv != nil
//@   requires nifa != nil && spec_ifaInv(nifa)
//@   ensures spec_ifaInv(nifa) && !nifa.initialized

//@ contract (*netIfa)._start
//@   props C33
//@   nosafety except close
//@   call MCastJoin args recv ethernet.EthernetInterfaceI requires recv != nil
//@   requires nifa != nil && spec_ifaInv(nifa)
//@   old wasInit bool = nifa.initialized
//@   ensures spec_ifaInv(nifa)
//@   ensures result == nil && !nifa.cfg.Passive ==> nifa.initialized
//@   ensures !wasInit && result != nil ==> !nifa.initialized

//@ contract (*netIfa).DeviceUpdate
//@   props C33
//@   nosafety except close
//@   requires nifa != nil && dev != nil && spec_ifaInv(nifa)
//@   ensures spec_ifaInv(nifa)
//@   ensures nifa.devStatus == dev

//@ contract (*netIfa).stop
//@   props C33
//@   nosafety except close
//@   requires nifa != nil && spec_ifaInv(nifa)
//@   ensures spec_ifaInv(nifa) && !nifa.initialized

// Property C31 (the part one hello decides): the adjacency state is changed by
// a hello only to Up, and only when its three-way TLV lists this system and
// circuit and the adjacency is not Up; or to Down, and only when the TLV does
// not list them and the adjacency is Up. A hello without the TLV changes nothing.
//@ contract (*neighbor).processP2PHello
//@   props C31
//@   nosafety
//@   requires n != nil && hello != nil
//@   call setState args s uint8 vars p2pAdjState *packet.P2PAdjacencyStateTLV requires p2pAdjState != nil && ((s == packet.P2PAdjStateUp && n.state != packet.P2PAdjStateUp && n.p2pAdjTLVContainsSelf(p2pAdjState)) || (s == packet.P2PAdjStateDown && n.state == packet.P2PAdjStateUp && !n.p2pAdjTLVContainsSelf(p2pAdjState)))

// The periodic check takes an adjacency Down only from Up, and gives a
// neighbor up only when it is Down.
//@ contract (*neighbor).adjChecker
//@   props C31
//@   nosafety
//@   requires n != nil
//@   call down vars state uint8 requires state == packet.P2PAdjStateUp
//@   call dispose vars state uint8 requires state == packet.P2PAdjStateDown

// A neighbor created from a first hello is not Up: it starts in Init, with the
// sender's system ID and address.
//@ contract (*neighborManager).neighborFromP2PHello
//@   props C31
//@   nosafety
//@   requires nm != nil && hello != nil
//@   ensures result != nil && result.state == packet.P2PAdjStateInit && result.sysID == hello.SystemID && result.addr == addr && result.nm == nm

// The neighbors advertised in the local LSP are taken from this list: every
// neighbor in it is Up.
//@ contract (*neighborManager).getNeighborsUp
//@   props C31
//@   nosafety
//@   requires nm != nil
//@   ensures forall(k, 0, len(result), result[k].state == packet.P2PAdjStateUp)
//@   modifies nothing
//@   loop 0 vars ret []*neighbor
//@   loop 0 invariant verif_freshslice(ret) && forall(k, 0, len(ret), ret[k].state == packet.P2PAdjStateUp)

// The first hello of a sender only creates the neighbor (in Init, nothing is
// processed further: nil is returned); later hellos find that neighbor.
//@ spec
//@ func spec_hasNb(nm *neighborManager, src ethernet.MACAddr) bool {
//@ 	_, ok := nm.neighbors[src]
//@ 	return ok
//@ }
//@ end
//@ contract (*neighborManager).addNeighborIfNotExists
//@   props C31
//@   nosafety
//@   requires nm != nil && hello != nil && nm.neighbors != nil
//@   old had bool = spec_hasNb(nm, src)
//@   old nb *neighbor = nm.neighbors[src]
//@   ensures had ==> result == nb && nm.neighbors[src] == nb
//@   ensures !had ==> result == nil && spec_hasNb(nm, src) && nm.neighbors[src] != nil && nm.neighbors[src].state == packet.P2PAdjStateInit
