//go:build verif

package server

// Contracts for govc (contract-based deductive verification, see /verif/DESIGN.md).
// Comments only; compiled only with the build tag "verif".

// Property C21: framing of received BGP messages never panics, whatever the header says.
//@ contract recvMsg
//@   props C21

// Properties C21/C22/C23: NOTIFICATIONs and closing the connection. The state of a
// connection (closed, NOTIFICATION written, code, subcode) is ghost state kept by
// the model of net.Conn (see govc/ghost.go).
//@ spec
//@ func spec_isIdle(s state) bool {
//@ 	_, ok := s.(*idleState)
//@ 	return ok
//@ }
//@ func spec_isOpenConfirm(s state) bool {
//@ 	_, ok := s.(*openConfirmState)
//@ 	return ok
//@ }
//@ end

//@ contract (*FSM).sendNotification
//@   props C21 C22
//@   nosafety
//@   requires fsm.con != nil
//@   old c0 bool = verif_closed(fsm.con)
//@   ensures verif_notified(fsm.con) && verif_notif_code(fsm.con) == errorCode && verif_notif_sub(fsm.con) == errorSubCode
//@   ensures verif_closed(fsm.con) == c0 && (!c0 ==> verif_notified_open(fsm.con))

// A malformed message is answered with a NOTIFICATION before the connection is closed.
//@ contract (*openSentState).msgReceived
//@   props C21 C23
//@   nosafety
//@   requires s.fsm != nil && s.fsm.con != nil && opt != nil && !verif_closed(s.fsm.con)
//@   ensures[C23] spec_isIdle(result0) ==> verif_closed(s.fsm.con)
//@   old isNotif bool = len(data) >= 19 && data[18] == packet.NotificationMsg
//@   call Conn.Close args recv net.Conn requires verif_notified_open(recv) || isNotif

//@ contract (*openConfirmState).msgReceived
//@   props C21 C23
//@   nosafety
//@   requires s.fsm != nil && s.fsm.con != nil && opt != nil && !verif_closed(s.fsm.con)
//@   ensures[C23] spec_isIdle(result0) ==> verif_closed(s.fsm.con)
//@   old isNotif bool = len(data) >= 19 && data[18] == packet.NotificationMsg
//@   call Conn.Close args recv net.Conn requires verif_notified_open(recv) || isNotif

//@ contract (*establishedState).msgReceived
//@   props C21 C23
//@   nosafety
//@   requires s.fsm != nil && s.fsm.con != nil && opt != nil && !verif_closed(s.fsm.con)
//@   ensures[C23] spec_isIdle(result0) ==> verif_closed(s.fsm.con)
//@   old isNotif bool = len(data) >= 19 && data[18] == packet.NotificationMsg
//@   call Conn.Close args recv net.Conn requires verif_notified_open(recv) || isNotif

// Properties C23/C22: every handler of OpenSent, OpenConfirm and Established that
// returns to Idle has closed the connection.
//@ contract (*openSentState).manualStop, (*openSentState).automaticStop, (*openSentState).holdTimerExpired, (*openSentState).unexpectedMessage, (*openSentState).checkHoldtimer
//@   props C23
//@   nosafety
//@   requires s.fsm != nil && s.fsm.con != nil
//@   ensures spec_isIdle(result0) ==> verif_closed(s.fsm.con)

//@ contract (*openSentState).openMsgReceived, (*openSentState).handleOpenMessage
//@   props C23 C22
//@   nosafety
//@   requires s.fsm != nil && s.fsm.con != nil && openMsg != nil && s.fsm.peer != nil
//@   ensures spec_isIdle(result0) ==> verif_closed(s.fsm.con)

//@ contract (*openSentState).notification
//@   props C23
//@   nosafety
//@   requires s.fsm != nil && s.fsm.con != nil && msg != nil
//@   ensures spec_isIdle(result0) ==> verif_closed(s.fsm.con)

//@ contract (*openConfirmState).manualStop, (*openConfirmState).holdTimerExpired, (*openConfirmState).keepaliveTimerExpired, (*openConfirmState).unexpectedMessage, (*openConfirmState).checkHoldtimer, (*openConfirmState).keepaliveReceived
//@   props C23
//@   nosafety
//@   requires s.fsm != nil && s.fsm.con != nil
//@   ensures spec_isIdle(result0) ==> verif_closed(s.fsm.con)

//@ contract (*openConfirmState).notification
//@   props C23
//@   nosafety
//@   requires s.fsm != nil && s.fsm.con != nil && msg != nil
//@   ensures spec_isIdle(result0) ==> verif_closed(s.fsm.con)

//@ contract (*establishedState).manualStop, (*establishedState).automaticStop, (*establishedState).holdTimerExpired, (*establishedState).keepaliveTimerExpired, (*establishedState).unexpectedMessage, (*establishedState).checkHoldtimer, (*establishedState).notification
//@   props C23
//@   nosafety
//@   requires s.fsm != nil && s.fsm.con != nil
//@   ensures spec_isIdle(result0) ==> verif_closed(s.fsm.con)

// Property C23: message-driven transitions are those of the RFC 4271 FSM:
// OpenSent moves on to OpenConfirm only on an OPEN, OpenConfirm to Established only
// on a KEEPALIVE; no other message type moves a session forward.
//@ spec
//@ func spec_isOpenSent(s state) bool {
//@ 	_, ok := s.(*openSentState)
//@ 	return ok
//@ }
//@ func spec_msgTypeOf(data []byte) uint8 {
//@ 	if len(data) < 19 {
//@ 		return 0
//@ 	}
//@ 	return data[18]
//@ }
//@ end

//@ contract (*openSentState).msgReceived
//@   old t0 uint8 = spec_msgTypeOf(data)
//@   ensures[C23] spec_isOpenConfirm(result0) ==> t0 == packet.OpenMsg
//@   ensures[C23] !spec_isEstablished(result0) && !spec_isOpenSent(result0)

//@ contract (*openConfirmState).msgReceived
//@   old t0 uint8 = spec_msgTypeOf(data)
//@   ensures[C23] spec_isEstablished(result0) ==> t0 == packet.KeepaliveMsg
//@   ensures[C23] !spec_isOpenSent(result0) && !spec_isOpenConfirm(result0)

//@ contract (*establishedState).msgReceived
//@   ensures[C23] !spec_isOpenSent(result0) && !spec_isOpenConfirm(result0)

//@ contract (*openSentState).notification, (*openSentState).unexpectedMessage, (*openConfirmState).notification, (*openConfirmState).unexpectedMessage, (*establishedState).notification, (*establishedState).unexpectedMessage
//@   ensures[C23] spec_isIdle(result0)

//@ contract (*openConfirmState).keepaliveReceived
//@   ensures[C23] spec_isEstablished(result0)

//@ contract (*openSentState).openMsgReceived, (*openSentState).handleOpenMessage
//@   ensures[C23] !spec_isEstablished(result0) && !spec_isOpenSent(result0)

//@ contract (*establishedState).update, (*establishedState).keepaliveReceived
//@   ensures[C23] !spec_isOpenSent(result0) && !spec_isOpenConfirm(result0)

//@ contract (*establishedState).update, (*establishedState).keepaliveReceived
//@   props C23
//@   nosafety
//@   requires s.fsm != nil && s.fsm.con != nil
//@   ensures spec_isIdle(result0) ==> verif_closed(s.fsm.con)

// Property C07: whenever a handler of Established leaves Established, the
// Adj-RIBs have been detached (uninit ran: ribsInitialized is false again).
//@ spec
//@ func spec_isEstablished(s state) bool {
//@ 	_, ok := s.(*establishedState)
//@ 	return ok
//@ }
//@ end

//@ contract (*establishedState).manualStop, (*establishedState).automaticStop, (*establishedState).cease, (*establishedState).holdTimerExpired, (*establishedState).keepaliveTimerExpired, (*establishedState).unexpectedMessage, (*establishedState).checkHoldtimer, (*establishedState).notification, (*establishedState).keepaliveReceived
//@   props C07
//@   nosafety
//@   requires s.fsm != nil && s.fsm.con != nil
//@   ensures[C07 C23] !spec_isEstablished(result0) ==> !s.fsm.ribsInitialized

//@ contract (*establishedState).msgReceived
//@   props C07
//@   ensures[C07 C23] !spec_isEstablished(result0) ==> !s.fsm.ribsInitialized

//@ contract (*establishedState).update
//@   props C07
//@   nosafety
//@   requires s.fsm != nil && s.fsm.con != nil && u != nil
//@   ensures[C07 C23] !spec_isEstablished(result0) ==> !s.fsm.ribsInitialized

// Detaching one address family works on the tables, the VRF's counters and the
// family object; it does not write the FSM object, the state object or the
// connection (assumed: the table code is not under contract yet).
//@ contract (*fsmAddressFamily).dispose
//@   props C07
//@   trusted frame of dispose (tables are outside the contracts of this package)
//@   requires f.fsm != nil
//@   call RemoveContributingASN args asn uint32 requires asn == f.fsm.peer.localASN
//@   call RemoveContributingClusterID args id uint32 requires f.fsm.peer.routeReflectorClient && id == f.fsm.peer.clusterID
//@   preserves type FSM, establishedState
//@   preserves f.fsm.con

//@ contract (*establishedState).uninit
//@   props C07
//@   nosafety
//@   requires s.fsm != nil
//@   old con0 net.Conn = s.fsm.con
//@   ensures !s.fsm.ribsInitialized && s.fsm.con == con0
//@   preserves type establishedState
//@   preserves s.fsm.con

// Property C20: UPDATEs are applied NLRI by NLRI: every call into the Adj-RIB-In
// carries the prefix and the path identifier of the NLRI being processed.
//@ contract (*fsmAddressFamily).updates
//@   props C20
//@   nosafety
//@   requires u != nil
//@   call AdjRIBIn.AddPath args cpfx *bnet.Prefix, q *route.Path vars r *packet.NLRI requires cpfx == r.Prefix && q.BGPPath.PathIdentifier == r.PathIdentifier && verif_fresh(q) && verif_fresh(q.BGPPath)

//@ contract (*fsmAddressFamily).withdraws
//@   props C20
//@   nosafety
//@   requires u != nil
//@   call AdjRIBIn.RemovePath args cpfx *bnet.Prefix, q *route.Path vars r *packet.NLRI requires cpfx == r.Prefix && q.BGPPath.PathIdentifier == r.PathIdentifier && verif_fresh(q) && verif_fresh(q.BGPPath)

//@ contract (*fsmAddressFamily).multiProtocolUpdate
//@   props C20
//@   nosafety
//@   requires path != nil && path.BGPPath != nil && path.BGPPath.BGPPathA != nil
//@   call AdjRIBIn.AddPath args cpfx *bnet.Prefix, q *route.Path vars n *packet.NLRI requires cpfx == n.Prefix && q.BGPPath.PathIdentifier == n.PathIdentifier && verif_fresh(q) && verif_fresh(q.BGPPath)

//@ contract (*fsmAddressFamily).multiProtocolWithdraw
//@   props C20
//@   nosafety
//@   requires path != nil && path.BGPPath != nil
//@   call AdjRIBIn.RemovePath args cpfx *bnet.Prefix, q *route.Path vars cur *packet.NLRI requires cpfx == cur.Prefix && q.BGPPath.PathIdentifier == cur.PathIdentifier

// Property C24: collision detection must recognise the states the FSM really
// stores (constructor/recogniser agreement), and the tie-break compares BGP
// identifiers, then AS numbers (RFC 4271 6.8, RFC 6286).
//@ lemma statesRecognised (fsm *FSM)
//@   props C24
//@   inline
//@   ensures isOpenConfirmState(newOpenConfirmState(fsm))
//@   ensures isEstablishedState(newEstablishedState(fsm))
//@   ensures !isOpenConfirmState(newEstablishedState(fsm)) && !isEstablishedState(newOpenConfirmState(fsm))
//@   ensures !isOpenConfirmState(newIdleState(fsm)) && !isEstablishedState(newIdleState(fsm))
//@   ensures !isOpenConfirmState(newOpenSentState(fsm)) && !isEstablishedState(newOpenSentState(fsm))
//@   ensures !isOpenConfirmState(newActiveState(fsm)) && !isEstablishedState(newActiveState(fsm))
//@   ensures !isOpenConfirmState(newConnectState(fsm)) && !isEstablishedState(newConnectState(fsm))
//@   ensures !isOpenConfirmState(newCeaseState()) && !isEstablishedState(newCeaseState())

//@ contract (*peer).shouldCeaseOnCollision
//@   props C24
//@   requires callingFSM != nil && callingFSM.peer != nil
//@   ensures p.routerID < callingFSM.neighborID ==> result
//@   ensures p.routerID > callingFSM.neighborID ==> !result
//@   ensures p.routerID == callingFSM.neighborID ==> result == (p.localASN < callingFSM.peer.peerASN)
//@   modifies nothing

// Property C36: a reload keeps a session running (and only swaps its filter
// chains) only if no other session-affecting setting changed.
//@ spec
//@ func spec_sameAFC(a, b *AddressFamilyConfig) bool {
//@ 	if a == nil || b == nil {
//@ 		return a == nil && b == nil
//@ 	}
//@ 	return a.AddPathSend == b.AddPathSend && a.AddPathRecv == b.AddPathRecv && a.NextHopExtended == b.NextHopExtended
//@ }
//@ func spec_sameIP(a, b *bnet.IP) bool {
//@ 	if a == nil || b == nil {
//@ 		return a == nil && b == nil
//@ 	}
//@ 	return *a == *b
//@ }
//@ end

//@ contract (*PeerConfig).NeedsRestart
//@   props C36
//@   requires x != nil
//@   ensures !result ==> pc.TTL == x.TTL
//@   ensures !result ==> spec_sameAFC(pc.IPv4, x.IPv4) && spec_sameAFC(pc.IPv6, x.IPv6)
//@   ensures !result ==> pc.HoldTime == x.HoldTime && pc.KeepAlive == x.KeepAlive && pc.ReconnectInterval == x.ReconnectInterval
//@   ensures !result ==> pc.LocalAS == x.LocalAS && pc.PeerAS == x.PeerAS && pc.RouterID == x.RouterID && pc.Passive == x.Passive
//@   ensures !result ==> pc.RouteServerClient == x.RouteServerClient && pc.RouteReflectorClient == x.RouteReflectorClient && pc.RouteReflectorClusterID == x.RouteReflectorClusterID
//@   ensures !result ==> pc.AdvertiseIPv4MultiProtocol == x.AdvertiseIPv4MultiProtocol
//@   ensures !result ==> pc.PeerRole == x.PeerRole && pc.PeerRoleStrictMode == x.PeerRoleStrictMode
//@   ensures !result ==> pc.AuthenticationKey == x.AuthenticationKey && pc.VRF == x.VRF
//@   ensures !result ==> spec_sameIP(pc.LocalAddress, x.LocalAddress)
//@   modifies nothing

// Property C27: framing of received BMP messages never panics and never allocates
// more than a stated maximum before the bytes have arrived.
//@ contract recvBMPMsg
//@   props C27
//@   alloc <= 1048576

// Property C22, negotiation details. The negotiated hold time is the smaller of
// the local value and the peer's offer (in seconds); a session goes on to
// OpenConfirm only with the configured peer AS (after the 4-octet AS capability
// has been taken into account); an internal peer presenting our own BGP
// identifier is rejected (RFC 6286).
//@ contract (*openSentState).handleOpenMessage
//@   old lh time.Duration = s.fsm.peer.holdTime
//@   ensures[C22] lh >= 0 && lh < 1<<52 ==> s.fsm.holdTime == ite(lh < time.Duration(openMsg.HoldTime)*time.Second, lh, time.Duration(openMsg.HoldTime)*time.Second)
//@   ensures[C22] spec_isOpenConfirm(result0) ==> s.peerASNRcvd == s.fsm.peer.peerASN

//@ contract (*openSentState).openMsgReceived
//@   old internal bool = s.fsm.peer.localASN == s.fsm.peer.peerASN
//@   old ourID bool = s.fsm.peer.routerID == openMsg.BGPIdentifier
//@   old bmp bool = s.fsm.isBMP
//@   ensures[C22] !bmp && internal && ourID ==> spec_isIdle(result0)

// Property C24, collision handling proper. The FSM that received the OPEN may go
// on (result false) only if no other connection of the peer is Established;
// another connection is told to cease only while in OpenConfirm and only when
// the identifier/AS comparison says so; and the comparison uses the identifier
// from the OPEN just received.
//@ contract (*FSM).cease
//@   props C24
//@   trusted sends the Cease event to the FSM's goroutine (channels are not modelled)
//@   modifies nothing

//@ contract (*peer).collisionHandling
//@   props C24
//@   nosafety
//@   requires p != nil && callingFSM != nil && callingFSM.peer != nil && forall(k, 0, len(p.fsms), p.fsms[k] != nil)
//@   ensures !result ==> forall(k, 0, len(p.fsms), p.fsms[k] == callingFSM || !isEstablishedState(p.fsms[k].state))
//@   call cease args recv *FSM requires recv != callingFSM && isOpenConfirmState(recv.state) && p.shouldCeaseOnCollision(callingFSM)
//@   loop 0 vars rangeindex int
//@   loop 0 invariant forall(k, 0, rangeindex+1, p.fsms[k] == callingFSM || !isEstablishedState(p.fsms[k].state))

//@ contract (*openSentState).openMsgReceived
//@   props C24
//@   call[C24] collisionHandling requires s.fsm.neighborID == openMsg.BGPIdentifier

// Property C12: a policy replacement is skipped only when the new chain equals
// the chain of the same direction that is in force.
//@ contract (*fsmAddressFamily).replaceImportFilterChain
//@   props C12
//@   nosafety
//@   requires f != nil
//@   call Equal args d filter.Chain requires len(d) == len(f.importFilterChain) && verif_arrayof(d) == verif_arrayof(f.importFilterChain)

//@ contract (*fsmAddressFamily).replaceExportFilterChain
//@   props C12
//@   nosafety
//@   requires f != nil
//@   call Equal args d filter.Chain requires len(d) == len(f.exportFilterChain) && verif_arrayof(d) == verif_arrayof(f.exportFilterChain)

// Properties C25 / C26 (see routingtable/zz_contracts_verif.go for what is
// decided). Session-side locks: the peer's FSM list, then an FSM's state, are
// taken before any table lock; the update sender's queue lock is taken after
// the Adj-RIB-Out's (the Adj-RIB-Out calls the update sender with its lock held).
//@ locklevel peerManager.peersMu 2
//@ locklevel peer.fsmsMu 3
//@ locklevel FSM.stateMu 4
//@ locklevel UpdateSender.toSendMu 40
//@ guarded UpdateSender.toSend by toSendMu
//@ guarded peer.fsms by fsmsMu
//@ guarded peerManager.peers by peersMu
//@ guarded FSM.state by stateMu

//@ contract (*UpdateSender).AddPath, (*UpdateSender).AddPathInitialDump, (*UpdateSender).EndOfRIB, (*UpdateSender).sender
//@   props C25 C26
//@   nosafety
//@   acquires 40
//@   locks C25
//@   guards C26

// Called with the queue lock held.
//@ contract (*UpdateSender)._flush
//@   props C25 C26
//@   nosafety
//@   requires verif_wheld(&u.toSendMu)
//@   acquires 41
//@   locks C25
//@   guards C26

//@ contract (*peer).replaceImportFilterChain, (*peer).replaceExportFilterChain, (*peer).collisionHandling, (*peer).dumpRIBIn, (*peer).dumpRIBOut
//@   props C25 C26
//@   nosafety
//@   acquires 3
//@   locks C25
//@   noblock
//@   guards C26

// stop waits for every FSM to take the stop event: to be called with no lock held.
//@ contract (*peer).stop
//@   props C25 C26
//@   nosafety
//@   acquires 0
//@   locks C25
//@   noblock
//@   guards C26

// Events reach an FSM through an unbuffered channel: the sender waits until the
// FSM's goroutine takes the event, and that goroutine may itself be waiting for
// a lock (collisionHandling takes the peer's FSM list lock). Functions that
// send an event are therefore to be called with no lock held (`acquires 0`),
// and sends inside functions with `noblock` are obligations of their own.
//@ contract (*FSM).cease, (*FSM).activate
//@   props C25
//@   acquires 0
//@   locks C25
//@   noblock

//@ contract metricsForPeer
//@   props C25 C26
//@   nosafety
//@   acquires 3
//@   locks C25
//@   guards C26

//@ contract (*bgpServer).GetRIBIn, (*bgpServer).GetRIBOut, (*peerManager).add, (*peerManager).remove, (*peerManager).get, (*peerManager).list
//@   props C25 C26
//@   nosafety
//@   acquires 2
//@   locks C25
//@   guards C26

// Disposing a session waits for its FSMs (peer.stop): no lock is held meanwhile.
//@ contract (*bgpServer).DisposePeer
//@   props C25 C26
//@   nosafety
//@   acquires 0
//@   locks C25
//@   noblock
//@   guards C26

// BMP: the neighbor list of a monitored router. Disposing a neighbor flushes
// its tables with the list lock held, so the list lock comes before them.
//@ locklevel neighborManager.neighborsMu 5
//@ guarded neighborManager.neighbors by neighborsMu
//@ contract (*neighborManager).addNeighbor, (*neighborManager).getNeighbor, (*neighborManager).neighborDown, (*neighborManager).disposeAll, (*neighborManager).list
//@   props C25 C26
//@   nosafety
//@   acquires 5
//@   locks C25
//@   guards C26
//@ contract (*neighborManager)._neighborDown
//@   props C25 C26
//@   nosafety
//@   requires verif_wheld(&nm.neighborsMu)
//@   acquires 6
//@   locks C25
//@   guards C26

// BMP receiver: the map of monitored routers.
//@ locklevel BMPReceiver.routersMu 1
//@ guarded BMPReceiver.routers by routersMu
//@ contract (*BMPReceiver).AddRouter, (*BMPReceiver).deleteRouter, (*BMPReceiver).RemoveRouter, (*BMPReceiver).getRouters, (*BMPReceiver).getRouter, (*BMPReceiver).GetRouters
//@   props C25 C26
//@   nosafety
//@   acquires 1
//@   locks C25
//@   guards C26
//@ contract (*BMPReceiver)._addRouter
//@   props C25 C26
//@   nosafety
//@   requires verif_wheld(&b.routersMu)
//@   acquires 2
//@   locks C25
//@   guards C26

// Destroying an update sender waits for its goroutine to take the signal: it
// is done, and an address family is detached, with no lock held.
//@ contract (*UpdateSender).Destroy
//@   props C25
//@   nosafety
//@   acquires 0
//@   locks C25
//@   noblock
//@ contract (*fsmAddressFamily).dispose
//@   props C25
//@   acquires 0
//@   locks C25
//@   noblock
