//go:build verif

package server

// Contracts for govc (contract-based deductive verification, see /verif/DESIGN.md).
// Comments only; compiled only with the build tag "verif".

// Property C21: framing of received BGP messages never panics, whatever the header says.
//@ contract recvMsg
//@   props C21

// Property C27: framing of received BMP messages never panics and never allocates
// more than a stated maximum before the bytes have arrived.
//@ contract recvBMPMsg
//@   props C27
//@   alloc <= 1048576
