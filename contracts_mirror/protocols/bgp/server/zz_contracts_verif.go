//go:build verif

package server

// Contracts for govc (contract-based deductive verification, see /verif/DESIGN.md).
// Comments only; compiled only with the build tag "verif".

// Property C21: framing of received BGP messages never panics, whatever the header says.
//@ contract recvMsg
//@   props C21

// Property C24: collision detection must recognise the states the FSM really
// stores (constructor/recogniser agreement), and the tie-break compares BGP
// identifiers, then AS numbers (RFC 4271 6.8, RFC 6286).
//@ lemma statesRecognised (fsm *FSM)
//@   props C24
//@   inline
//@   ensures isOpenConfirmState(newOpenConfirmState(fsm))
//@   ensures isEstablishedState(newEstablishedState(fsm))
//@   ensures !isOpenConfirmState(newEstablishedState(fsm)) && !isEstablishedState(newOpenConfirmState(fsm))
//@   ensures !isOpenConfirmState(newIdleState(fsm)) && !isEstablishedState(newIdleState(fsm))
//@   ensures !isOpenConfirmState(newOpenSentState(fsm)) && !isEstablishedState(newOpenSentState(fsm))
//@   ensures !isOpenConfirmState(newActiveState(fsm)) && !isEstablishedState(newActiveState(fsm))
//@   ensures !isOpenConfirmState(newConnectState(fsm)) && !isEstablishedState(newConnectState(fsm))
//@   ensures !isOpenConfirmState(newCeaseState()) && !isEstablishedState(newCeaseState())

//@ contract (*peer).shouldCeaseOnCollision
//@   props C24
//@   requires callingFSM != nil && callingFSM.peer != nil
//@   ensures p.routerID < callingFSM.neighborID ==> result
//@   ensures p.routerID > callingFSM.neighborID ==> !result
//@   ensures p.routerID == callingFSM.neighborID ==> result == (p.localASN < callingFSM.peer.peerASN)
//@   modifies nothing

// Property C36: a reload keeps a session running (and only swaps its filter
// chains) only if no other session-affecting setting changed.
//@ spec
//@ func spec_sameAFC(a, b *AddressFamilyConfig) bool {
//@ 	if a == nil || b == nil {
//@ 		return a == nil && b == nil
//@ 	}
//@ 	return a.AddPathSend == b.AddPathSend && a.AddPathRecv == b.AddPathRecv && a.NextHopExtended == b.NextHopExtended
//@ }
//@ func spec_sameIP(a, b *bnet.IP) bool {
//@ 	if a == nil || b == nil {
//@ 		return a == nil && b == nil
//@ 	}
//@ 	return *a == *b
//@ }
//@ end

//@ contract (*PeerConfig).NeedsRestart
//@   props C36
//@   requires x != nil
//@   ensures !result ==> pc.TTL == x.TTL
//@   ensures !result ==> spec_sameAFC(pc.IPv4, x.IPv4) && spec_sameAFC(pc.IPv6, x.IPv6)
//@   ensures !result ==> pc.HoldTime == x.HoldTime && pc.KeepAlive == x.KeepAlive && pc.ReconnectInterval == x.ReconnectInterval
//@   ensures !result ==> pc.LocalAS == x.LocalAS && pc.PeerAS == x.PeerAS && pc.RouterID == x.RouterID && pc.Passive == x.Passive
//@   ensures !result ==> pc.RouteServerClient == x.RouteServerClient && pc.RouteReflectorClient == x.RouteReflectorClient && pc.RouteReflectorClusterID == x.RouteReflectorClusterID
//@   ensures !result ==> pc.AdvertiseIPv4MultiProtocol == x.AdvertiseIPv4MultiProtocol
//@   ensures !result ==> pc.PeerRole == x.PeerRole && pc.PeerRoleStrictMode == x.PeerRoleStrictMode
//@   ensures !result ==> pc.AuthenticationKey == x.AuthenticationKey && pc.VRF == x.VRF
//@   ensures !result ==> spec_sameIP(pc.LocalAddress, x.LocalAddress)
//@   modifies nothing

// Property C27: framing of received BMP messages never panics and never allocates
// more than a stated maximum before the bytes have arrived.
//@ contract recvBMPMsg
//@   props C27
//@   alloc <= 1048576
