//go:build verif

package types

// Contracts for govc (contract-based deductive verification, see /verif/DESIGN.md).
// Comments only; compiled only with the build tag "verif".

// Property C34: conversion of BGP attribute values to and from the API types
// keeps every field the API schema carries.

//@ contract (*LargeCommunity).ToProto
//@   props C34
//@   requires c != nil
//@   ensures result != nil && verif_fresh(result)
//@   ensures result.GlobalAdministrator == c.GlobalAdministrator && result.DataPart1 == c.DataPart1 && result.DataPart2 == c.DataPart2
//@   modifies nothing

//@ contract LargeCommunityFromProtoCommunity
//@   props C34
//@   requires alc != nil
//@   ensures result.GlobalAdministrator == alc.GlobalAdministrator && result.DataPart1 == alc.DataPart1 && result.DataPart2 == alc.DataPart2
//@   modifies nothing

// The value bytes are copied, flags and type code kept.
//@ contract (*UnknownPathAttribute).ToProto
//@   props C34
//@   requires u != nil
//@   ensures result != nil && verif_fresh(result) && verif_freshslice(result.Value)
//@   ensures result.Optional == u.Optional && result.Transitive == u.Transitive && result.Partial == u.Partial && result.TypeCode == uint32(u.TypeCode)
//@   ensures verif_sameelems(result.Value, u.Value)
//@   modifies nothing

//@ contract UnknownPathAttributeFromProtoUnknownPathAttribute
//@   props C34
//@   requires x != nil
//@   ensures result.Optional == x.Optional && result.Transitive == x.Transitive && result.Partial == x.Partial && uint32(result.TypeCode) == x.TypeCode&255
//@   ensures verif_sameelems(result.Value, x.Value)
//@   modifies nothing

// Segment by segment: kind (sequence or set) and the ASNs in order.
//@ contract ASPath.ToProto
//@   props C34
//@   ensures len(result) == len(pa)
//@   ensures forall(k, 0, len(pa), result[k] != nil && result[k].AsSequence == (pa[k].Type == ASSequence) && verif_sameelems(result[k].Asns, pa[k].ASNs))
//@   modifies nothing
//@   loop 0 vars ret []*api.ASPathSegment, rangeindex int
//@   loop 0 invariant len(ret) == len(pa) && verif_freshslice(ret)
//@   loop 0 invariant forall(k, 0, rangeindex+1, ret[k] != nil && verif_fresh(ret[k]) && verif_freshslice(ret[k].Asns))
//@   loop 0 invariant forall(k, 0, rangeindex+1, ret[k].AsSequence == (pa[k].Type == ASSequence) && verif_sameelems(ret[k].Asns, pa[k].ASNs))

//@ contract ASPathFromProtoASPath
//@   props C34
//@   requires forall(k, 0, len(segments), segments[k] != nil)
//@   ensures result != nil && len(*result) == len(segments)
//@   ensures forall(k, 0, len(segments), ((*result)[k].Type == ASSequence) == segments[k].AsSequence && ((*result)[k].Type == ASSequence || (*result)[k].Type == ASSet) && verif_sameelems((*result)[k].ASNs, segments[k].Asns))
//@   modifies nothing
//@   loop 0 vars asPath ASPath, rangeindex int
//@   loop 0 invariant len(asPath) == len(segments) && verif_freshslice(asPath)
//@   loop 0 invariant forall(k, 0, rangeindex+1, verif_freshslice(asPath[k].ASNs))
//@   loop 0 invariant forall(k, 0, rangeindex+1, (asPath[k].Type == ASSequence) == segments[k].AsSequence && (asPath[k].Type == ASSequence || asPath[k].Type == ASSet) && verif_sameelems(asPath[k].ASNs, segments[k].Asns))

// Reads only.
//@ contract ASPath.Length
//@   props C34
//@   modifies nothing
