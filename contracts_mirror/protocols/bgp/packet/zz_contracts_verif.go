//go:build verif

package packet

// Contracts for govc (contract-based deductive verification, see /verif/DESIGN.md).
// This file contains comments only; it is compiled only with the build tag
// "verif" and then compiles to nothing.

// Property C16: decoding is total. Every function reachable from Decode gets a
// safety-only contract (no panic for any buffer contents and options); the
// contracts below add the facts callers need.
//@ sweep Decode props C16

//@ contract Decode
//@   props C16 C21
//@   requires buf != nil && opt != nil

//@ spec
//@ func spec_isASPath(v interface{}) bool {
//@ 	_, ok := v.(types.ASPath)
//@ 	return ok
//@ }
//@ end

//@ contract decodeHeader
//@   props C16 C21
//@   nonnil
//@   ensures result1 == nil ==> result0 != nil

// Property C19 (decoder boundary): a successful decode consumed exactly what the
// length fields declared, and the three UPDATE lengths add up without wrap-around.
// (len0 <= 4096 keeps the 16-bit counters of the code from wrapping; a BGP
// message has at most 4096 bytes.)
//@ contract dumpNBytes
//@   props C16 C19
//@   nonnil
//@   modifies buf
//@   old len0 int = buf.Len()
//@   ensures[C19] result == nil ==> len0 - buf.Len() == int(n)
//@   loop 0 vars i uint16
//@   loop 0 invariant len0 - buf.Len() == int(i) && i <= n

//@ contract (*PathAttribute).decodeCommunities
//@   props C16 C19
//@   nonnil
//@   modifies buf, pa
//@   old len0 int = buf.Len()
//@   ensures[C19] result == nil ==> len0 - buf.Len() == int(pa.Length)
//@   loop 0 vars i uint16, count uint16
//@   loop 0 invariant len0 - buf.Len() == 4*int(i) && i <= count

//@ contract (*PathAttribute).decodeClusterList
//@   props C16 C19
//@   nonnil
//@   modifies buf, pa
//@   old len0 int = buf.Len()
//@   ensures[C19] result == nil ==> len0 - buf.Len() == int(pa.Length)
//@   loop 0 vars i uint16, count uint16
//@   loop 0 invariant len0 - buf.Len() == 4*int(i) && i <= count

//@ contract (*PathAttribute).decodeLargeCommunities
//@   props C16 C19
//@   nonnil
//@   modifies buf, pa
//@   old len0 int = buf.Len()
//@   ensures[C19] result == nil ==> len0 - buf.Len() == int(pa.Length)
//@   loop 0 vars i uint16, count uint16
//@   loop 0 invariant len0 - buf.Len() == 12*int(i) && i <= count

//@ contract (*PathAttribute).decodeASPath
//@   props C16 C19
//@   nonnil
//@   requires asnLength == 2 || asnLength == 4
//@   modifies buf, pa
//@   old len0 int = buf.Len()
//@   ensures[C19] result == nil && len0 <= 4096 ==> len0 - buf.Len() == int(pa.Length)
//@   loop 0 vars p uint16
//@   loop 0 invariant spec_isASPath(pa.Value)
//@   loop 0 invariant len0 <= 4096 ==> int(p) == len0 - buf.Len()
//@   loop 1 vars p uint16
//@   loop 1 invariant len0 <= 4096 ==> int(p) == len0 - buf.Len()

// One consumption contract per attribute decoder keeps decodePathAttr's own
// verification condition small (callers see the contracts, not the bodies).
//@ contract (*PathAttribute).setLength
//@   props C16 C19
//@   nonnil
//@   modifies buf, pa
//@   old len0 int = buf.Len()
//@   ensures result1 == nil ==> len0 - buf.Len() == result0 && (result0 == 1 || result0 == 2)

//@ contract (*PathAttribute).decodeOrigin
//@   props C16 C19
//@   nonnil
//@   modifies buf, pa
//@   old len0 int = buf.Len()
//@   ensures[C19] result == nil && len0 <= 4096 ==> len0 - buf.Len() == int(pa.Length)

//@ contract (*PathAttribute).decodeNextHop
//@   props C16 C19
//@   nonnil
//@   modifies buf, pa
//@   old len0 int = buf.Len()
//@   ensures[C19] result == nil ==> len0 - buf.Len() == int(pa.Length)

//@ contract (*PathAttribute).decodeMED
//@   props C16 C19
//@   nonnil
//@   modifies buf, pa
//@   old len0 int = buf.Len()
//@   ensures[C19] result == nil ==> len0 - buf.Len() == int(pa.Length)

//@ contract (*PathAttribute).decodeLocalPref
//@   props C16 C19
//@   nonnil
//@   modifies buf, pa
//@   old len0 int = buf.Len()
//@   ensures[C19] result == nil ==> len0 - buf.Len() == int(pa.Length)

//@ contract (*PathAttribute).decodeAggregator
//@   props C16 C19
//@   nonnil
//@   modifies buf, pa
//@   old len0 int = buf.Len()
//@   ensures[C19] result == nil && len0 <= 4096 ==> len0 - buf.Len() == int(pa.Length)

//@ contract (*PathAttribute).decodeUint32
//@   props C16 C19
//@   nonnil
//@   modifies buf, pa
//@   old len0 int = buf.Len()
//@   ensures[C19] result == nil && len0 <= 4096 ==> len0 - buf.Len() == int(pa.Length)

//@ contract (*PathAttribute).decodeUnknown
//@   props C16 C19
//@   nonnil
//@   modifies buf, pa
//@   old len0 int = buf.Len()
//@   ensures[C19] result == nil ==> len0 - buf.Len() == int(pa.Length)

//@ contract (*PathAttribute).decodeMultiProtocolReachNLRI
//@   props C16 C19
//@   nonnil
//@   modifies buf, pa
//@   old len0 int = buf.Len()
//@   ensures[C19] result == nil ==> len0 - buf.Len() == int(pa.Length)

//@ contract (*PathAttribute).decodeMultiProtocolUnreachNLRI
//@   props C16 C19
//@   nonnil
//@   modifies buf, pa
//@   old len0 int = buf.Len()
//@   ensures[C19] result == nil ==> len0 - buf.Len() == int(pa.Length)

//@ contract decodePathAttr
//@   props C16 C19
//@   nonnil
//@   modifies buf
//@   old len0 int = buf.Len()
//@   ensures err == nil ==> pa != nil && verif_fresh(pa)
//@   ensures err == nil && len0 <= 4096 ==> int(consumed) == len0 - buf.Len()

//@ contract decodePathAttrs
//@   props C16 C19
//@   nonnil
//@   modifies buf
//@   old len0 int = buf.Len()
//@   ensures[C19] result1 == nil && len0 <= 4096 ==> len0 - buf.Len() == int(tpal)
//@   loop 0 vars ret *PathAttribute, eol *PathAttribute, p uint16
//@   loop 0 invariant (ret == nil) == (eol == nil) && (eol == nil || verif_fresh(eol))
//@   loop 0 invariant len0 <= 4096 ==> int(p) == len0 - buf.Len()

//@ contract decodeNLRI
//@   props C16 C19
//@   nonnil
//@   modifies buf
//@   old len0 int = buf.Len()
//@   ensures result2 == nil ==> result0 != nil && verif_fresh(result0)
//@   ensures result2 == nil && safi != SAFILabeledUnicast ==> int(result1) == len0 - buf.Len() && result1 >= 1
//@   ensures result2 == nil ==> result0.Prefix != nil

//@ contract decodeNLRIs
//@   props C16 C19
//@   nonnil
//@   modifies buf
//@   old len0 int = buf.Len()
//@   ensures result1 == nil && safi != SAFILabeledUnicast && len0 <= 4096 ==> len0 - buf.Len() == int(length)
//@   loop 0 vars ret *NLRI, eol *NLRI, p uint16
//@   loop 0 invariant (ret == nil) == (eol == nil) && (eol == nil || verif_fresh(eol))
//@   loop 0 invariant safi != SAFILabeledUnicast && len0 <= 4096 ==> int(p) == len0 - buf.Len()

//@ contract decodeUpdateMsg
//@   props C16 C19
//@   nonnil
//@   modifies buf
//@   old len0 int = buf.Len()
//@   ensures result1 == nil ==> result0 != nil
//@   ensures[C19] result1 == nil && len0 <= 4096 ==> 4+uint32(result0.WithdrawnRoutesLen)+uint32(result0.TotalPathAttrLen) <= uint32(l)
//@   ensures[C19] result1 == nil && len0 <= 4096 ==> len0 - buf.Len() == int(l)
