//go:build verif

package packet

// Contracts for govc (contract-based deductive verification, see /verif/DESIGN.md).
// This file contains comments only; it is compiled only with the build tag
// "verif" and then compiles to nothing.

// Property C16: decoding is total. Every function reachable from Decode gets a
// safety-only contract (no panic for any buffer contents and options); the
// contracts below add the facts callers need.
//@ sweep Decode props C16

//@ contract Decode
//@   props C16 C21
//@   requires buf != nil && opt != nil

//@ spec
//@ func spec_isASPath(v interface{}) bool {
//@ 	_, ok := v.(types.ASPath)
//@ 	return ok
//@ }
//@ end

//@ contract decodeHeader
//@   props C16 C21
//@   nonnil
//@   ensures result1 == nil ==> result0 != nil

//@ contract decodeNLRI
//@   props C16 C19
//@   nonnil
//@   ensures result2 == nil ==> result0 != nil

//@ contract decodeNLRIs
//@   props C16 C19
//@   nonnil
//@   loop 0 vars ret *NLRI, eol *NLRI
//@   loop 0 invariant (ret == nil) == (eol == nil)

//@ contract decodePathAttr
//@   props C16 C19
//@   nonnil
//@   ensures err == nil ==> pa != nil

//@ contract decodePathAttrs
//@   props C16 C19
//@   nonnil
//@   loop 0 vars ret *PathAttribute, eol *PathAttribute
//@   loop 0 invariant (ret == nil) == (eol == nil)

//@ contract (*PathAttribute).decodeASPath
//@   props C16
//@   nonnil
//@   loop 0 invariant spec_isASPath(pa.Value)
