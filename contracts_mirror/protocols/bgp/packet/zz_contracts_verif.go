//go:build verif

package packet

// Contracts for govc (contract-based deductive verification, see /verif/DESIGN.md).
// This file contains comments only; it is compiled only with the build tag
// "verif" and then compiles to nothing.

// Property C16: decoding is total. Every function reachable from Decode gets a
// safety-only contract (no panic for any buffer contents and options); the
// contracts below add the facts callers need.
// With option frame every swept function also gets the default frame: it writes
// only objects passed to it by pointer and objects it allocated itself.
//@ sweep Decode props C16 frame

//@ spec
//@ func spec_isBGPError(e error) bool {
//@ 	_, ok := e.(BGPError)
//@ 	return ok
//@ }
//@ // the type octet of the message at the head of the buffer (0 if there is none)
//@ func spec_byteAt(buf *bytes.Buffer, k int) uint8 {
//@ 	b := buf.Bytes()
//@ 	if k < 0 || k >= len(b) {
//@ 		return 0
//@ 	}
//@ 	return b[k]
//@ }
//@ func spec_msgType(buf *bytes.Buffer) uint8 { return spec_byteAt(buf, 18) }
//@ func spec_errCode(e error) uint8 {
//@ 	b, ok := e.(BGPError)
//@ 	if !ok {
//@ 		return 0
//@ 	}
//@ 	return b.ErrorCode
//@ }
//@ end

// Property C21: a decoding error must reach the FSM as a BGPError (the FSM sends
// the NOTIFICATION from its code and subcode), with the code of the part of the
// message that is malformed: 1 header, 2 OPEN, 3 UPDATE.
//@ contract Decode
//@   props C16 C21
//@   requires buf != nil && opt != nil
//@   modifies buf
//@   old typ0 uint8 = spec_msgType(buf)
//@   ensures[C21] result1 != nil && typ0 != NotificationMsg ==> spec_isBGPError(result1)
//@   ensures result1 == nil ==> result0 != nil && result0.Header != nil && result0.Header.Type == typ0

// Property C22: an OPEN is acceptable only with version 4, a non-zero identifier
// and a hold time of 0 or at least 3 seconds; the error names the cause.
//@ spec
//@ func spec_errSub(e error) uint8 {
//@ 	b, ok := e.(BGPError)
//@ 	if !ok {
//@ 		return 0
//@ 	}
//@ 	return b.ErrorSubCode
//@ }
//@ end

//@ contract validateOpen
//@   props C22
//@   requires msg != nil
//@   ensures result == nil ==> msg.Version == BGP4Version && msg.BGPIdentifier != 0 && (msg.HoldTime == 0 || msg.HoldTime >= 3)
//@   ensures result != nil ==> spec_isBGPError(result) && spec_errCode(result) == OpenMessageError
//@   ensures msg.Version != BGP4Version ==> spec_errSub(result) == UnsupportedVersionNumber
//@   ensures msg.Version == BGP4Version && msg.BGPIdentifier == 0 ==> spec_errSub(result) == BadBGPIdentifier
//@   ensures msg.Version == BGP4Version && msg.BGPIdentifier != 0 && msg.HoldTime != 0 && msg.HoldTime < 3 ==> spec_errSub(result) == UnacceptableHoldTime
//@   modifies nothing

//@ contract SerializeNotificationMsg
//@   props C17 C21
//@   requires msg != nil
//@   ensures len(result) == 21 && result[16] == 0 && result[17] == 21 && result[18] == NotificationMsg
//@   ensures len(result) == 21 && result[19] == msg.ErrorCode && result[20] == msg.ErrorSubcode

//@ spec
//@ func spec_isASPath(v interface{}) bool {
//@ 	_, ok := v.(types.ASPath)
//@ 	return ok
//@ }
//@ // the AS path under construction lives in an array of its own (appending to it writes no other object)
//@ func spec_ownASPath(v interface{}) bool {
//@ 	a, ok := v.(types.ASPath)
//@ 	return ok && verif_freshslice(a)
//@ }
//@ end

//@ contract decodeHeader
//@   props C16 C21
//@   nonnil
//@   old typ0 uint8 = spec_byteAt(buf, 18)
//@   ensures result1 == nil ==> result0 != nil
//@   ensures[C21] result1 != nil ==> spec_isBGPError(result1)
//@   ensures[C21] result1 == nil ==> result0.Type == typ0 && result0.Type >= OpenMsg && result0.Type <= KeepaliveMsg
//@   loop 0 vars i int
//@   loop 0 invariant i >= 0 && i <= 16 && spec_byteAt(buf, 18-i) == typ0

// Property C19 (decoder boundary): a successful decode consumed exactly what the
// length fields declared, and the three UPDATE lengths add up without wrap-around.
// (len0 <= 4096 keeps the 16-bit counters of the code from wrapping; a BGP
// message has at most 4096 bytes.)
//@ contract dumpNBytes
//@   props C16 C19
//@   nonnil
//@   modifies buf
//@   old len0 int = buf.Len()
//@   ensures[C19] result == nil ==> len0 - buf.Len() == int(n)
//@   loop 0 vars i uint16
//@   loop 0 invariant len0 - buf.Len() == int(i) && i <= n

//@ contract (*PathAttribute).decodeCommunities
//@   props C16 C19
//@   nonnil
//@   modifies buf, pa
//@   old len0 int = buf.Len()
//@   ensures[C19] result == nil ==> len0 - buf.Len() == int(pa.Length)
//@   loop 0 vars i uint16, count uint16
//@   loop 0 invariant len0 - buf.Len() == 4*int(i) && i <= count

//@ contract (*PathAttribute).decodeClusterList
//@   props C16 C19
//@   nonnil
//@   modifies buf, pa
//@   old len0 int = buf.Len()
//@   ensures[C19] result == nil ==> len0 - buf.Len() == int(pa.Length)
//@   loop 0 vars i uint16, count uint16
//@   loop 0 invariant len0 - buf.Len() == 4*int(i) && i <= count

//@ contract (*PathAttribute).decodeLargeCommunities
//@   props C16 C19
//@   nonnil
//@   modifies buf, pa
//@   old len0 int = buf.Len()
//@   ensures[C19] result == nil ==> len0 - buf.Len() == int(pa.Length)
//@   loop 0 vars i uint16, count uint16
//@   loop 0 invariant len0 - buf.Len() == 12*int(i) && i <= count

//@ contract (*PathAttribute).decodeASPath
//@   props C16 C19
//@   nonnil
//@   requires asnLength == 2 || asnLength == 4
//@   modifies buf, pa
//@   old len0 int = buf.Len()
//@   ensures[C19] result == nil && len0 <= 4096 ==> len0 - buf.Len() == int(pa.Length)
//@   loop 0 vars p uint16
//@   loop 0 invariant spec_isASPath(pa.Value)
//@   loop 0 invariant spec_ownASPath(pa.Value)
//@   loop 0 invariant len0 <= 4096 ==> int(p) == len0 - buf.Len()
//@   loop 1 vars p uint16
//@   loop 1 invariant len0 <= 4096 ==> int(p) == len0 - buf.Len()

// One consumption contract per attribute decoder keeps decodePathAttr's own
// verification condition small (callers see the contracts, not the bodies).
//@ contract (*PathAttribute).setLength
//@   props C16 C19
//@   nonnil
//@   modifies buf, pa
//@   old len0 int = buf.Len()
//@   ensures result1 == nil ==> len0 - buf.Len() == result0 && (result0 == 1 || result0 == 2)

//@ contract (*PathAttribute).decodeOrigin
//@   props C16 C19
//@   nonnil
//@   modifies buf, pa
//@   old len0 int = buf.Len()
//@   ensures[C19] result == nil && len0 <= 4096 ==> len0 - buf.Len() == int(pa.Length)

//@ contract (*PathAttribute).decodeNextHop
//@   props C16 C19
//@   nonnil
//@   modifies buf, pa
//@   old len0 int = buf.Len()
//@   ensures[C19] result == nil ==> len0 - buf.Len() == int(pa.Length)

//@ contract (*PathAttribute).decodeMED
//@   props C16 C19
//@   nonnil
//@   modifies buf, pa
//@   old len0 int = buf.Len()
//@   ensures[C19] result == nil ==> len0 - buf.Len() == int(pa.Length)

//@ contract (*PathAttribute).decodeLocalPref
//@   props C16 C19
//@   nonnil
//@   modifies buf, pa
//@   old len0 int = buf.Len()
//@   ensures[C19] result == nil ==> len0 - buf.Len() == int(pa.Length)

//@ contract (*PathAttribute).decodeAggregator
//@   props C16 C19
//@   nonnil
//@   modifies buf, pa
//@   old len0 int = buf.Len()
//@   ensures[C19] result == nil && len0 <= 4096 ==> len0 - buf.Len() == int(pa.Length)

//@ contract (*PathAttribute).decodeUint32
//@   props C16 C19
//@   nonnil
//@   modifies buf, pa
//@   old len0 int = buf.Len()
//@   ensures[C19] result == nil && len0 <= 4096 ==> len0 - buf.Len() == int(pa.Length)

//@ contract (*PathAttribute).decodeUnknown
//@   props C16 C19
//@   nonnil
//@   modifies buf, pa
//@   old len0 int = buf.Len()
//@   ensures[C19] result == nil ==> len0 - buf.Len() == int(pa.Length)

//@ contract (*PathAttribute).decodeMultiProtocolReachNLRI
//@   props C16 C19
//@   nonnil
//@   modifies buf, pa
//@   old len0 int = buf.Len()
//@   ensures[C19] result == nil ==> len0 - buf.Len() == int(pa.Length)

//@ contract (*PathAttribute).decodeMultiProtocolUnreachNLRI
//@   props C16 C19
//@   nonnil
//@   modifies buf, pa
//@   old len0 int = buf.Len()
//@   ensures[C19] result == nil ==> len0 - buf.Len() == int(pa.Length)

//@ contract decodePathAttr
//@   props C16 C19
//@   nonnil
//@   split
//@   modifies buf
//@   old len0 int = buf.Len()
//@   ensures err == nil ==> pa != nil && verif_fresh(pa)
//@   ensures err == nil && len0 <= 4096 ==> int(consumed) == len0 - buf.Len()

//@ contract decodePathAttrs
//@   props C16 C19
//@   nonnil
//@   modifies buf
//@   old len0 int = buf.Len()
//@   ensures[C19] result1 == nil && len0 <= 4096 ==> len0 - buf.Len() == int(tpal)
//@   loop 0 vars ret *PathAttribute, eol *PathAttribute, p uint16
//@   loop 0 invariant (ret == nil) == (eol == nil) && (eol == nil || verif_fresh(eol))
//@   loop 0 invariant len0 <= 4096 ==> int(p) == len0 - buf.Len()

//@ contract decodeNLRI
//@   props C16 C19
//@   nonnil
//@   modifies buf
//@   old len0 int = buf.Len()
//@   ensures result2 == nil ==> result0 != nil && verif_fresh(result0)
//@   ensures result2 == nil && safi != SAFILabeledUnicast ==> int(result1) == len0 - buf.Len() && result1 >= 1
//@   ensures result2 == nil ==> result0.Prefix != nil
//@   loop 0 vars nlri *NLRI
//@   loop 0 invariant verif_fresh(nlri) && verif_freshslice(nlri.LabelStack)

//@ contract decodeNLRIs
//@   props C16 C19
//@   nonnil
//@   modifies buf
//@   old len0 int = buf.Len()
//@   ensures result1 == nil && safi != SAFILabeledUnicast && len0 <= 4096 ==> len0 - buf.Len() == int(length)
//@   loop 0 vars ret *NLRI, eol *NLRI, p uint16
//@   loop 0 invariant (ret == nil) == (eol == nil) && (eol == nil || verif_fresh(eol))
//@   loop 0 invariant safi != SAFILabeledUnicast && len0 <= 4096 ==> int(p) == len0 - buf.Len()

//@ contract decodeUpdateMsg
//@   props C16 C19
//@   nonnil
//@   modifies buf
//@   old len0 int = buf.Len()
//@   ensures result1 == nil ==> result0 != nil
//@   ensures[C19] result1 == nil && len0 <= 4096 ==> 4+uint32(result0.WithdrawnRoutesLen)+uint32(result0.TotalPathAttrLen) <= uint32(l)
//@   ensures[C19] result1 == nil && len0 <= 4096 ==> len0 - buf.Len() == int(l)
