//go:build verif

package packet

// Contracts for govc (contract-based deductive verification, see /verif/DESIGN.md).
// This file contains comments only; it is compiled only with the build tag
// "verif" and then compiles to nothing.

// Property C16: decoding is total. Every function reachable from Decode gets a
// safety-only contract (no panic for any buffer contents and options); the
// contracts below add the facts callers need.
// With option frame every swept function also gets the default frame: it writes
// only objects passed to it by pointer and objects it allocated itself.
//@ sweep Decode props C16 frame

//@ spec
//@ func spec_isBGPError(e error) bool {
//@ 	_, ok := e.(BGPError)
//@ 	return ok
//@ }
//@ // the type octet of the message at the head of the buffer (0 if there is none)
//@ func spec_byteAt(buf *bytes.Buffer, k int) uint8 {
//@ 	b := buf.Bytes()
//@ 	if k < 0 || k >= len(b) {
//@ 		return 0
//@ 	}
//@ 	return b[k]
//@ }
//@ func spec_msgType(buf *bytes.Buffer) uint8 { return spec_byteAt(buf, 18) }
//@ func spec_errCode(e error) uint8 {
//@ 	b, ok := e.(BGPError)
//@ 	if !ok {
//@ 		return 0
//@ 	}
//@ 	return b.ErrorCode
//@ }
//@ end

// Property C21: a decoding error must reach the FSM as a BGPError (the FSM sends
// the NOTIFICATION from its code and subcode), with the code of the part of the
// message that is malformed: 1 header, 2 OPEN, 3 UPDATE.
//@ contract Decode
//@   props C16 C21
//@   requires buf != nil && opt != nil
//@   modifies buf
//@   old typ0 uint8 = spec_msgType(buf)
//@   ensures[C21] result1 != nil && typ0 != NotificationMsg ==> spec_isBGPError(result1)
//@   ensures result1 == nil ==> result0 != nil && result0.Header != nil && result0.Header.Type == typ0

// Property C22: an OPEN is acceptable only with version 4, a non-zero identifier
// and a hold time of 0 or at least 3 seconds; the error names the cause.
//@ spec
//@ func spec_errSub(e error) uint8 {
//@ 	b, ok := e.(BGPError)
//@ 	if !ok {
//@ 		return 0
//@ 	}
//@ 	return b.ErrorSubCode
//@ }
//@ end

//@ contract validateOpen
//@   props C22
//@   requires msg != nil
//@   ensures result == nil ==> msg.Version == BGP4Version && msg.BGPIdentifier != 0 && (msg.HoldTime == 0 || msg.HoldTime >= 3)
//@   ensures result != nil ==> spec_isBGPError(result) && spec_errCode(result) == OpenMessageError
//@   ensures msg.Version != BGP4Version ==> spec_errSub(result) == UnsupportedVersionNumber
//@   ensures msg.Version == BGP4Version && msg.BGPIdentifier == 0 ==> spec_errSub(result) == BadBGPIdentifier
//@   ensures msg.Version == BGP4Version && msg.BGPIdentifier != 0 && msg.HoldTime != 0 && msg.HoldTime < 3 ==> spec_errSub(result) == UnacceptableHoldTime
//@   modifies nothing

//@ contract SerializeNotificationMsg
//@   props C17 C21
//@   requires msg != nil
//@   ensures len(result) == 21 && result[16] == 0 && result[17] == 21 && result[18] == NotificationMsg
//@   ensures len(result) == 21 && result[19] == msg.ErrorCode && result[20] == msg.ErrorSubcode

//@ spec
//@ func spec_isASPath(v interface{}) bool {
//@ 	_, ok := v.(types.ASPath)
//@ 	return ok
//@ }
//@ func spec_clusterLen(v interface{}) int {
//@ 	c, ok := v.(*types.ClusterList)
//@ 	if !ok || c == nil {
//@ 		return 0
//@ 	}
//@ 	return len(*c)
//@ }
//@ func spec_isCommunities(v interface{}) bool {
//@ 	if v == nil {
//@ 		return true
//@ 	}
//@ 	c, ok := v.(*types.Communities)
//@ 	return ok && c != nil
//@ }
//@ func spec_communitiesLen(v interface{}) int {
//@ 	c, ok := v.(*types.Communities)
//@ 	if !ok || c == nil {
//@ 		return 0
//@ 	}
//@ 	return len(*c)
//@ }
//@ func spec_isLargeCommunities(v interface{}) bool {
//@ 	if v == nil {
//@ 		return true
//@ 	}
//@ 	c, ok := v.(*types.LargeCommunities)
//@ 	return ok && c != nil
//@ }
//@ func spec_largeCommunitiesLen(v interface{}) int {
//@ 	c, ok := v.(*types.LargeCommunities)
//@ 	if !ok || c == nil {
//@ 		return 0
//@ 	}
//@ 	return len(*c)
//@ }
//@ func spec_isBytes(v interface{}) bool {
//@ 	_, ok := v.([]byte)
//@ 	return ok
//@ }
//@ func spec_bytesLen(v interface{}) int {
//@ 	b, ok := v.([]byte)
//@ 	if !ok {
//@ 		return 0
//@ 	}
//@ 	return len(b)
//@ }
//@ func spec_isClusterList(v interface{}) bool {
//@ 	if v == nil {
//@ 		return true
//@ 	}
//@ 	c, ok := v.(*types.ClusterList)
//@ 	return ok && c != nil
//@ }
//@ // the AS path under construction lives in an array of its own (appending to it writes no other object)
//@ func spec_ownASPath(v interface{}) bool {
//@ 	a, ok := v.(types.ASPath)
//@ 	return ok && verif_freshslice(a)
//@ }
//@ end

//@ contract decodeHeader
//@   props C16 C21
//@   nonnil
//@   old typ0 uint8 = spec_byteAt(buf, 18)
//@   ensures result1 == nil ==> result0 != nil
//@   ensures[C21] result1 != nil ==> spec_isBGPError(result1)
//@   ensures[C21] result1 == nil ==> result0.Type == typ0 && result0.Type >= OpenMsg && result0.Type <= KeepaliveMsg
//@   loop 0 vars i int
//@   loop 0 invariant i >= 0 && i <= 16 && spec_byteAt(buf, 18-i) == typ0

// Property C19 (decoder boundary): a successful decode consumed exactly what the
// length fields declared, and the three UPDATE lengths add up without wrap-around.
// (len0 <= 4096 keeps the 16-bit counters of the code from wrapping; a BGP
// message has at most 4096 bytes.)
//@ contract dumpNBytes
//@   props C16 C19
//@   nonnil
//@   modifies buf
//@   old len0 int = buf.Len()
//@   ensures[C19] result == nil ==> len0 - buf.Len() == int(n)
//@   loop 0 vars i uint16
//@   loop 0 invariant len0 - buf.Len() == int(i) && i <= n

//@ contract (*PathAttribute).decodeCommunities
//@   props C16 C19
//@   nonnil
//@   modifies buf, pa
//@   old len0 int = buf.Len()
//@   ensures[C19] result == nil ==> len0 - buf.Len() == int(pa.Length)
//@   loop 0 vars i uint16, count uint16
//@   loop 0 invariant len0 - buf.Len() == 4*int(i) && i <= count

//@ contract (*PathAttribute).decodeClusterList
//@   props C16 C19
//@   nonnil
//@   modifies buf, pa
//@   old len0 int = buf.Len()
//@   ensures[C19] result == nil ==> len0 - buf.Len() == int(pa.Length)
//@   loop 0 vars i uint16, count uint16
//@   loop 0 invariant len0 - buf.Len() == 4*int(i) && i <= count

//@ contract (*PathAttribute).decodeLargeCommunities
//@   props C16 C19
//@   nonnil
//@   modifies buf, pa
//@   old len0 int = buf.Len()
//@   ensures[C19] result == nil ==> len0 - buf.Len() == int(pa.Length)
//@   loop 0 vars i uint16, count uint16
//@   loop 0 invariant len0 - buf.Len() == 12*int(i) && i <= count

//@ contract (*PathAttribute).decodeASPath
//@   props C16 C19
//@   nonnil
//@   requires asnLength == 2 || asnLength == 4
//@   modifies buf, pa
//@   old len0 int = buf.Len()
//@   ensures[C19] result == nil && len0 <= 4096 ==> len0 - buf.Len() == int(pa.Length)
//@   loop 0 vars p uint16
//@   loop 0 invariant spec_isASPath(pa.Value)
//@   loop 0 invariant spec_ownASPath(pa.Value)
//@   loop 0 invariant len0 <= 4096 ==> int(p) == len0 - buf.Len()
//@   loop 1 vars p uint16
//@   loop 1 invariant len0 <= 4096 ==> int(p) == len0 - buf.Len()

// One consumption contract per attribute decoder keeps decodePathAttr's own
// verification condition small (callers see the contracts, not the bodies).
//@ contract (*PathAttribute).setLength
//@   props C16 C19
//@   nonnil
//@   modifies buf, pa
//@   old len0 int = buf.Len()
//@   ensures result1 == nil ==> len0 - buf.Len() == result0 && (result0 == 1 || result0 == 2)

//@ contract (*PathAttribute).decodeOrigin
//@   props C16 C19
//@   nonnil
//@   modifies buf, pa
//@   old len0 int = buf.Len()
//@   ensures[C19] result == nil && len0 <= 4096 ==> len0 - buf.Len() == int(pa.Length)

//@ contract (*PathAttribute).decodeNextHop
//@   props C16 C19
//@   nonnil
//@   modifies buf, pa
//@   old len0 int = buf.Len()
//@   ensures[C19] result == nil ==> len0 - buf.Len() == int(pa.Length)

//@ contract (*PathAttribute).decodeMED
//@   props C16 C19
//@   nonnil
//@   modifies buf, pa
//@   old len0 int = buf.Len()
//@   ensures[C19] result == nil ==> len0 - buf.Len() == int(pa.Length)

//@ contract (*PathAttribute).decodeLocalPref
//@   props C16 C19
//@   nonnil
//@   modifies buf, pa
//@   old len0 int = buf.Len()
//@   ensures[C19] result == nil ==> len0 - buf.Len() == int(pa.Length)

//@ contract (*PathAttribute).decodeAggregator
//@   props C16 C19
//@   nonnil
//@   modifies buf, pa
//@   old len0 int = buf.Len()
//@   ensures[C19] result == nil && len0 <= 4096 ==> len0 - buf.Len() == int(pa.Length)

//@ contract (*PathAttribute).decodeUint32
//@   props C16 C19
//@   nonnil
//@   modifies buf, pa
//@   old len0 int = buf.Len()
//@   ensures[C19] result == nil && len0 <= 4096 ==> len0 - buf.Len() == int(pa.Length)

//@ contract (*PathAttribute).decodeUnknown
//@   props C16 C19
//@   nonnil
//@   modifies buf, pa
//@   old len0 int = buf.Len()
//@   ensures[C19] result == nil ==> len0 - buf.Len() == int(pa.Length)

//@ contract (*PathAttribute).decodeMultiProtocolReachNLRI
//@   props C16 C19
//@   nonnil
//@   modifies buf, pa
//@   old len0 int = buf.Len()
//@   ensures[C19] result == nil ==> len0 - buf.Len() == int(pa.Length)

//@ contract (*PathAttribute).decodeMultiProtocolUnreachNLRI
//@   props C16 C19
//@   nonnil
//@   modifies buf, pa
//@   old len0 int = buf.Len()
//@   ensures[C19] result == nil ==> len0 - buf.Len() == int(pa.Length)

//@ contract decodePathAttr
//@   props C16 C19
//@   nonnil
//@   split
//@   modifies buf
//@   old len0 int = buf.Len()
//@   ensures err == nil ==> pa != nil && verif_fresh(pa)
//@   ensures err == nil && len0 <= 4096 ==> int(consumed) == len0 - buf.Len()

//@ contract decodePathAttrs
//@   props C16 C19
//@   nonnil
//@   modifies buf
//@   old len0 int = buf.Len()
//@   ensures[C19] result1 == nil && len0 <= 4096 ==> len0 - buf.Len() == int(tpal)
//@   loop 0 vars ret *PathAttribute, eol *PathAttribute, p uint16
//@   loop 0 invariant (ret == nil) == (eol == nil) && (eol == nil || verif_fresh(eol))
//@   loop 0 invariant len0 <= 4096 ==> int(p) == len0 - buf.Len()

//@ contract decodeNLRI
//@   props C16 C19
//@   nonnil
//@   modifies buf
//@   old len0 int = buf.Len()
//@   ensures result2 == nil ==> result0 != nil && verif_fresh(result0)
//@   ensures result2 == nil && safi != SAFILabeledUnicast ==> int(result1) == len0 - buf.Len() && result1 >= 1
//@   ensures result2 == nil ==> result0.Prefix != nil
//@   loop 0 vars nlri *NLRI
//@   loop 0 invariant verif_fresh(nlri) && verif_freshslice(nlri.LabelStack)

//@ contract decodeNLRIs
//@   props C16 C19
//@   nonnil
//@   modifies buf
//@   old len0 int = buf.Len()
//@   ensures result1 == nil && safi != SAFILabeledUnicast && len0 <= 4096 ==> len0 - buf.Len() == int(length)
//@   loop 0 vars ret *NLRI, eol *NLRI, p uint16
//@   loop 0 invariant (ret == nil) == (eol == nil) && (eol == nil || verif_fresh(eol))
//@   loop 0 invariant safi != SAFILabeledUnicast && len0 <= 4096 ==> int(p) == len0 - buf.Len()

//@ contract decodeUpdateMsg
//@   props C16 C19
//@   nonnil
//@   modifies buf
//@   old len0 int = buf.Len()
//@   ensures result1 == nil ==> result0 != nil
//@   ensures[C19] result1 == nil && len0 <= 4096 ==> 4+uint32(result0.WithdrawnRoutesLen)+uint32(result0.TotalPathAttrLen) <= uint32(l)
//@   ensures[C19] result1 == nil && len0 <= 4096 ==> len0 - buf.Len() == int(l)

// Property C17: what the attribute serializers emit is well-formed. For each
// serializer: the returned size is the number of bytes appended to the buffer,
// and the attribute header is consistent with what follows - with the
// extended-length flag the two length octets, without it the one length octet,
// hold the number of value bytes that follow (so a length that does not fit its
// field is a failed obligation).
//@ spec
//@ // the bytes appended since the buffer held n0 bytes form one attribute: flags, type code t, length, value
//@ func spec_attrAt(buf *bytes.Buffer, n0 int, t uint8) bool {
//@ 	b := buf.Bytes()
//@ 	w := len(b) - n0
//@ 	if w < 3 || b[n0+1] != t {
//@ 		return false
//@ 	}
//@ 	if b[n0]&16 != 0 {
//@ 		return w >= 4 && w-4 == int(b[n0+2])<<8|int(b[n0+3])
//@ 	}
//@ 	return w-3 == int(b[n0+2])
//@ }
//@ end

// A CLUSTER_LIST of up to 63 identifiers (252 bytes) fits the one-octet length.
//@ contract (*PathAttribute).serializeClusterList
//@   props C17
//@   requires pa != nil && buf != nil && spec_isClusterList(pa.Value)
//@   old n0 int = buf.Len()
//@   old n int = spec_clusterLen(pa.Value)
//@   ensures n <= 63 ==> int(result) == buf.Len() - n0
//@   ensures n <= 63 && buf.Len() > n0 ==> spec_attrAt(buf, n0, ClusterListAttr)
//@   ensures n > 63 ==> int(result) == buf.Len() - n0 && spec_attrAt(buf, n0, ClusterListAttr)
//@   modifies buf
//@   loop 0 vars rangeindex int, cids *types.ClusterList
//@   loop 0 invariant buf.Len() == n0 + 3 + 4*(rangeindex+1) && buf.Bytes()[n0] == 128 && buf.Bytes()[n0+1] == ClusterListAttr && buf.Bytes()[n0+2] == uint8(4*len(*cids))

// An unknown attribute is passed on with its value; a value of more than 255
// bytes is sent with the extended-length flag whatever the stored flag says.
// Clauses 0, 3, 4 and 5 together say that the bytes appended form one attribute
// (spec_attrAt) and pin its header exactly: flags bit, type code, and a length
// field of the announced width that equals the value's length.
//@ contract (*PathAttribute).serializeUnknownAttribute
//@   props C17
//@   requires pa != nil && buf != nil && spec_isBytes(pa.Value) && spec_bytesLen(pa.Value) <= 65000
//@   old n0 int = buf.Len()
//@   old n int = spec_bytesLen(pa.Value)
//@   ensures buf.Len() == n0 + n + ite(pa.ExtendedLength || n > 255, 4, 3) && buf.Bytes()[n0+1] == pa.TypeCode
//@   ensures !pa.ExtendedLength && n <= 255 ==> int(result) == buf.Len() - n0
//@   ensures pa.ExtendedLength || n > 255 ==> int(result) == buf.Len() - n0
//@   ensures pa.ExtendedLength || n > 255 ==> int(buf.Bytes()[n0+2]) == n>>8 && int(buf.Bytes()[n0+3]) == n&255
//@   ensures !(pa.ExtendedLength || n > 255) ==> int(buf.Bytes()[n0+2]) == n
//@   ensures (buf.Bytes()[n0]&16 != 0) == (pa.ExtendedLength || n > 255)
//@   modifies buf

// The pieces of an UPDATE are serialized into buffers of their own.
//@ contract (*NLRI).serialize, (*PathAttribute).Serialize
//@   props C17
//@   trusted the NLRI and attribute serializers write only the buffer they are given (their bodies are under contract only in part)
//@   modifies buf

//@ contract (*BGPUpdate).SerializeUpdate
//@   props C17
//@   nosafety
//@   requires b != nil && opt != nil
//@   ensures result1 == nil ==> len(result0) <= 4096 && len(result0) >= 23
//@   loop 0 vars buf *bytes.Buffer
//@   loop 0 invariant buf != nil && buf.Len() == 0
//@   loop 1 vars buf *bytes.Buffer
//@   loop 1 invariant buf != nil && buf.Len() == 0
//@   loop 2 vars buf *bytes.Buffer
//@   loop 2 invariant buf != nil && buf.Len() == 0
