//go:build verif

package packet

// Contracts for govc (contract-based deductive verification, see /verif/DESIGN.md).
// Comments only; compiled only with the build tag "verif".

// Property C27: decoding a BMP message never panics and never allocates out of
// proportion to the message: every make in a decoder is bounded by the number of
// bytes that are still unread when the decoder is entered (allocbuf), and by the
// message length in Decode itself.
//@ sweep Decode props C27 allocbuf

//@ contract Decode
//@   props C27
//@   alloc <= len(msg)
