//go:build verif

package refcounter

// Contracts for govc (contract-based deductive verification, see /verif/DESIGN.md).
// Comments only; compiled only with the build tag "verif".

// Property C06 (loop detection data): removing one reference of a value never
// affects the presence of another value. (That a value disappears exactly with
// its last reference needs "one item per value" and was too slow to claim.)
//@ spec
//@ func spec_has(r *RefcounterUint32, v uint32) bool {
//@ 	return verif_exists(0, len(r.items), func(i int) bool { return r.items[i].value == v })
//@ }
//@ func spec_hasOnce(r *RefcounterUint32, v uint32) bool {
//@ 	return verif_exists(0, len(r.items), func(i int) bool { return r.items[i].value == v && r.items[i].count == 1 })
//@ }
//@ func spec_ok(r *RefcounterUint32) bool {
//@ 	return verif_forall(0, len(r.items), func(i int) bool { return r.items[i] != nil && r.items[i].count >= 1 && r.items[i].count < 4294967290 })
//@ }
//@ end

//@ contract (*RefcounterUint32).IsPresent
//@   props C06
//@   requires r != nil && spec_ok(r)
//@   ensures[C06] result == spec_has(r, value)
//@   modifies nothing
//@   loop 0 vars rangeindex int
//@   loop 0 invariant forall(k, 0, rangeindex+1, r.items[k].value != value)

//@ contract (*RefcounterUint32).Remove
//@   props C06
//@   requires r != nil && spec_ok(r)
//@   logical v uint32
//@   old had bool = spec_has(r, v)
//@   ensures[C06] v != value ==> spec_has(r, v) == had
//@   loop 0 vars rangeindex int
//@   loop 0 invariant forall(k, 0, rangeindex+1, r.items[k].value != value)

// Property C25: the counter's lock is innermost.
//@ locklevel RefcounterUint32.itemsMu 96
//@ contract (*RefcounterUint32).IsPresent, (*RefcounterUint32).Remove
//@   props C25
//@   acquires 96
//@   locks C25
//@ contract (*RefcounterUint32).Add
//@   props C25
//@   nosafety
//@   acquires 96
//@   locks C25
