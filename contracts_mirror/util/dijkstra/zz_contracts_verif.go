//go:build verif

package dijkstra

// Contracts for govc (contract-based deductive verification, see /verif/DESIGN.md).
// Comments only; compiled only with the build tag "verif".

// Property C35 (safety part): the shortest-path-tree computation never panics, on
// any topology and source node.
//@ contract (*Topology).SPT
//@   props C35

//@ contract (*Topology).newSPT
//@   props C35
//@   ensures result != nil
