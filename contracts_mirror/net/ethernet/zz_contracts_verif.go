//go:build verif

package ethernet

// Contracts for govc (contract-based deductive verification, see /verif/DESIGN.md).
// Comments only; compiled only with the build tag "verif".

// The ethernet layer as seen by IS-IS (property C33): a factory hands out a
// handle or an error; using a handle writes none of the caller's objects.
//@ contract EthernetInterfaceFactoryI.New
//@   props C33
//@   ensures result1 == nil ==> result0 != nil
//@   modifies nothing

//@ contract EthernetInterfaceI.Close, EthernetInterfaceI.MCastJoin
//@   props C33
//@   modifies nothing
