//go:build verif

package net

// Contracts for govc (contract-based deductive verification, see /verif/DESIGN.md).
// This file contains comments only; it is compiled only with the build tag
// "verif" and then compiles to nothing.

//@ spec
//@ // --- bit-level definitions (property C15) ---------------------------------
//@ func spec_okIP(ip IP) bool { return !ip.isLegacy || (ip.higher == 0 && ip.lower>>32 == 0) }
//@ func spec_wid(ip IP) uint8 {
//@ 	if ip.isLegacy {
//@ 		return 32
//@ 	}
//@ 	return 128
//@ }
//@ func spec_okPfx(p Prefix) bool { return spec_okIP(p.addr) && p.len <= spec_wid(p.addr) }
//@ // the first n bits (n <= 64) of two 64-bit words agree
//@ func spec_top64(a, b uint64, n uint8) bool {
//@ 	if n == 0 {
//@ 		return true
//@ 	}
//@ 	if n >= 64 {
//@ 		return a == b
//@ 	}
//@ 	return a>>(64-n) == b>>(64-n)
//@ }
//@ // the first n bits of two addresses of the same family agree
//@ func spec_sameTop(a, b IP, n uint8) bool {
//@ 	if a.isLegacy {
//@ 		if n == 0 {
//@ 			return true
//@ 		}
//@ 		if n >= 32 {
//@ 			return uint32(a.lower) == uint32(b.lower)
//@ 		}
//@ 		return uint32(a.lower)>>(32-n) == uint32(b.lower)>>(32-n)
//@ 	}
//@ 	if n <= 64 {
//@ 		return spec_top64(a.higher, b.higher, n)
//@ 	}
//@ 	return a.higher == b.higher && spec_top64(a.lower, b.lower, n-64)
//@ }
//@ // bit number pos (1-based from the most significant bit) of the address
//@ func spec_bit(ip IP, pos uint8) bool {
//@ 	if ip.isLegacy {
//@ 		return pos >= 1 && pos <= 32 && (uint32(ip.lower)>>(32-pos))&1 == 1
//@ 	}
//@ 	if pos >= 1 && pos <= 64 {
//@ 		return (ip.higher>>(64-pos))&1 == 1
//@ 	}
//@ 	return pos >= 65 && pos <= 128 && (ip.lower>>(128-pos))&1 == 1
//@ }
//@ // all bits behind the first n are zero
//@ func spec_hostZero(ip IP, n uint8) bool {
//@ 	if ip.isLegacy {
//@ 		return uint32(ip.lower)<<n == 0
//@ 	}
//@ 	if n <= 64 {
//@ 		return ip.lower == 0 && ip.higher<<n == 0
//@ 	}
//@ 	return ip.lower<<(n-64) == 0
//@ }
//@ func spec_min8(a, b uint8) uint8 {
//@ 	if a < b {
//@ 		return a
//@ 	}
//@ 	return b
//@ }
//@ // q lies strictly inside p (bit-level definition of containment)
//@ func spec_contains(p, q Prefix) bool { return q.len > p.len && spec_sameTop(p.addr, q.addr, p.len) }
//@ // neither prefix contains or equals the other: the call-site condition of GetSupernet
//@ func spec_disjoint(p, q Prefix) bool {
//@ 	return !spec_sameTop(p.addr, q.addr, spec_min8(p.len, q.len))
//@ }
//@ end

//@ contract (*Prefix).containsIPv4
//@   props C15 C01 C14
//@   requires x != nil && spec_okPfx(*pfx) && spec_okPfx(*x) && pfx.addr.isLegacy && x.addr.isLegacy
//@   ensures result == spec_sameTop(pfx.addr, x.addr, pfx.len)
//@   modifies nothing

//@ contract (*Prefix).containsIPv6
//@   props C15 C01 C14
//@   requires x != nil && spec_okPfx(*pfx) && spec_okPfx(*x) && !pfx.addr.isLegacy && !x.addr.isLegacy
//@   ensures result == spec_sameTop(pfx.addr, x.addr, pfx.len)
//@   modifies nothing

//@ contract (*Prefix).Contains
//@   props C15 C01 C14
//@   requires x != nil && spec_okPfx(*pfx) && spec_okPfx(*x) && pfx.addr.isLegacy == x.addr.isLegacy
//@   ensures result == spec_contains(*pfx, *x)
//@   modifies nothing

//@ contract (*Prefix).Equal
//@   props C15 C01 C14
//@   requires x != nil
//@   ensures result == (pfx.addr.higher == x.addr.higher && pfx.addr.lower == x.addr.lower && pfx.addr.isLegacy == x.addr.isLegacy && pfx.len == x.len)
//@   modifies nothing

//@ contract (*Prefix).supernetIPv4
//@   props C15 C01
//@   requires x != nil && spec_okPfx(*pfx) && spec_okPfx(*x) && pfx.addr.isLegacy && x.addr.isLegacy
//@   requires spec_disjoint(*pfx, *x)
//@   ensures spec_okPfx(result) && result.addr.isLegacy
//@   ensures result.len < spec_min8(pfx.len, x.len)
//@   ensures spec_sameTop(result.addr, pfx.addr, result.len) && spec_sameTop(result.addr, x.addr, result.len)
//@   ensures !spec_sameTop(pfx.addr, x.addr, result.len+1)
//@   ensures spec_hostZero(result.addr, result.len)
//@   modifies nothing
//@   loop 0 vars a uint32, b uint32, maxPfxLen uint8
//@   loop 0 invariant maxPfxLen < spec_min8(pfx.len, x.len)
//@   loop 0 invariant a == uint32(pfx.addr.lower)>>(32-maxPfxLen) && b == uint32(x.addr.lower)>>(32-maxPfxLen)
//@   loop 0 invariant !spec_sameTop(pfx.addr, x.addr, maxPfxLen+1)
//@   loop 0 decreases int(maxPfxLen)

//@ contract (*Prefix).supernetIPv6
//@   props C15 C01
//@   requires x != nil && spec_okPfx(*pfx) && spec_okPfx(*x) && !pfx.addr.isLegacy && !x.addr.isLegacy
//@   requires spec_disjoint(*pfx, *x)
//@   ensures spec_okPfx(result) && !result.addr.isLegacy
//@   ensures result.len < spec_min8(pfx.len, x.len)
//@   ensures spec_sameTop(result.addr, pfx.addr, result.len) && spec_sameTop(result.addr, x.addr, result.len)
//@   ensures !spec_sameTop(pfx.addr, x.addr, result.len+1)
//@   ensures spec_hostZero(result.addr, result.len)
//@   modifies nothing
//@   loop 0 vars a bool, b bool, pfxLen uint8, mask uint64, maxPfxLen uint8
//@   loop 0 invariant pfxLen <= maxPfxLen && maxPfxLen == spec_min8(pfx.len, x.len)
//@   loop 0 invariant a == spec_bit(pfx.addr, pfxLen+1) && b == spec_bit(x.addr, pfxLen+1)
//@   loop 0 invariant spec_sameTop(pfx.addr, x.addr, pfxLen)
//@   loop 0 invariant (pfxLen <= 64 ==> mask == ^uint64(0)<<(64-pfxLen)) && (pfxLen > 64 ==> mask == ^uint64(0)<<(128-pfxLen))
//@   loop 0 decreases int(maxPfxLen) - int(pfxLen)

//@ contract (*Prefix).GetSupernet
//@   props C15 C01
//@   requires x != nil && spec_okPfx(*pfx) && spec_okPfx(*x) && pfx.addr.isLegacy == x.addr.isLegacy
//@   requires spec_disjoint(*pfx, *x)
//@   ensures spec_okPfx(result) && result.addr.isLegacy == pfx.addr.isLegacy
//@   ensures result.len < spec_min8(pfx.len, x.len)
//@   ensures spec_sameTop(result.addr, pfx.addr, result.len) && spec_sameTop(result.addr, x.addr, result.len)
//@   ensures !spec_sameTop(pfx.addr, x.addr, result.len+1)
//@   ensures spec_hostZero(result.addr, result.len)
//@   modifies nothing

//@ contract (*Prefix).Valid
//@   props C15
//@   ensures spec_okPfx(*p) ==> result == spec_hostZero(p.addr, p.len)
//@   modifies nothing

// Printing (reached from error messages of the decoders): no index out of range.
//@ contract IP.stringIPv6
//@   props C16 C30
//@   loop 0 vars i int, e0 int, e1 int
//@   loop 0 invariant i >= 0 && i%2 == 0 && i <= 18
//@   loop 0 invariant (e0 == -1 && e1 == -1) || (e0 >= 0 && e0%2 == 0 && e1%2 == 0 && e1 > e0 && e1 <= int(ip.SizeBytes()))
//@   loop 1 vars i int, j int
//@   loop 1 invariant j%2 == 0 && j >= i && j <= int(ip.SizeBytes())
//@   loop 2 vars i int
//@   loop 2 invariant i >= 0 && i%2 == 0

//@ contract (*Prefix).BaseAddr
//@   props C15
//@   requires spec_okPfx(*p)
//@   ensures result.isLegacy == p.addr.isLegacy && spec_okIP(result)
//@   ensures spec_sameTop(result, p.addr, p.len)
//@   ensures spec_hostZero(result, p.len)
//@   modifies nothing

//@ contract IP.BitAtPosition
//@   props C15 C01
//@   requires spec_okIP(ip)
//@   ensures result == spec_bit(ip, pos)
//@   modifies nothing

//@ contract (*IP).Compare
//@   props C15 C02 C03
//@   requires other != nil
//@   ensures (result == 1) == (ip.higher > other.higher || (ip.higher == other.higher && ip.lower > other.lower))
//@   ensures (result == -1) == (ip.higher < other.higher || (ip.higher == other.higher && ip.lower < other.lower))
//@   ensures (result == 0) == (ip.higher == other.higher && ip.lower == other.lower)
//@   ensures result == 1 || result == -1 || result == 0
//@   modifies nothing

//@ contract (*IP).Equal
//@   props C15
//@   ensures result == (ip.higher == other.higher && ip.lower == other.lower && ip.isLegacy == other.isLegacy)
//@   modifies nothing

//@ contract IP.ToUint32
//@   props C15
//@   ensures result == uint32(ip.lower)
//@   modifies nothing

//@ contract IPv4
//@   props C15
//@   ensures result.isLegacy && result.higher == 0 && result.lower == uint64(val) && spec_okIP(result)
//@   modifies nothing

//@ contract IPv4FromOctets
//@   props C15
//@   ensures result.isLegacy && result.higher == 0 && spec_okIP(result)
//@   ensures uint8(result.lower>>24) == o1 && uint8(result.lower>>16) == o2 && uint8(result.lower>>8) == o3 && uint8(result.lower) == o4
//@   modifies nothing

//@ contract IPv6FromBlocks
//@   props C15
//@   ensures !result.isLegacy
//@   ensures uint16(result.higher>>48) == b1 && uint16(result.higher>>32) == b2 && uint16(result.higher>>16) == b3 && uint16(result.higher) == b4
//@   ensures uint16(result.lower>>48) == b5 && uint16(result.lower>>32) == b6 && uint16(result.lower>>16) == b7 && uint16(result.lower) == b8
//@   modifies nothing

//@ contract (*IP).Next
//@   props C15
//@   requires spec_okIP(*ip)
//@   ensures result.isLegacy == ip.isLegacy
//@   ensures !ip.isLegacy ==> (result.lower == ip.lower+1 && (result.higher == ip.higher+1) == (ip.lower == ^uint64(0)) && (result.higher == ip.higher) == (ip.lower != ^uint64(0)))
//@   ensures ip.isLegacy && uint32(ip.lower) != ^uint32(0) ==> (result.lower == ip.lower+1 && result.higher == 0)
//@   modifies nothing

// BytesInAddr uses floating point; its contract is decided by running the real
// function on all 256 inputs (back end: enumeration).
//@ contract BytesInAddr
//@   props C15 C16 C19 C17 C18
//@   exhaustive
//@   ensures uint16(result) == (uint16(pfxlen)+7)/8
//@   modifies nothing

// The de-duplication caches (global maps behind a mutex) are not verified; their
// effect on callers is that of the identity.
//@ contract Prefix.Dedup
//@   trusted de-duplication cache: returns a pointer to an equal value
//@   ensures result != nil && *result == p
//@   modifies nothing

//@ contract IP.Dedup
//@   trusted de-duplication cache: returns a pointer to an equal value
//@   ensures result != nil && *result == ip
//@   modifies nothing

//@ contract (*IP).MaskLastNBits
//@   props C15
//@   requires spec_okIP(*ip) && n <= spec_wid(*ip)
//@   ensures result.isLegacy == ip.isLegacy && spec_okIP(result)
//@   ensures spec_sameTop(result, *ip, spec_wid(*ip)-n)
//@   ensures spec_hostZero(result, spec_wid(*ip)-n)
//@   modifies nothing

// Property C34: conversion to and from the API types keeps address, family and
// prefix length.
//@ contract IP.ToProto
//@   props C34
//@   ensures result != nil && verif_fresh(result)
//@   ensures result.Higher == ip.higher && result.Lower == ip.lower && (result.Version == api.IP_IPv4) == ip.isLegacy
//@   modifies nothing

//@ contract IPFromProtoIP
//@   props C34
//@   requires addr != nil
//@   ensures result.higher == addr.Higher && result.lower == addr.Lower && result.isLegacy == (addr.Version == api.IP_IPv4)
//@   modifies nothing

//@ contract Prefix.ToProto
//@   props C34
//@   ensures result != nil && verif_fresh(result) && result.Address != nil && verif_fresh(result.Address)
//@   ensures result.Length == uint32(p.len) && result.Address.Higher == p.addr.higher && result.Address.Lower == p.addr.lower && (result.Address.Version == api.IP_IPv4) == p.addr.isLegacy
//@   modifies nothing

//@ contract NewPrefixFromProtoPrefix
//@   props C34
//@   requires pfx != nil && pfx.Address != nil
//@   ensures result != nil && verif_fresh(result)
//@   ensures uint32(result.len) == pfx.Length&255 && result.addr.higher == pfx.Address.Higher && result.addr.lower == pfx.Address.Lower && result.addr.isLegacy == (pfx.Address.Version == api.IP_IPv4)
//@   modifies nothing

// For contracts of other packages: a well-formed prefix, and two prefixes of one family.
//@ spec
//@ func Spec_OkPfx(p *Prefix) bool { return p != nil && spec_okPfx(*p) }
//@ func Spec_SameFamily(p *Prefix, q *Prefix) bool { return p.addr.isLegacy == q.addr.isLegacy }
//@ end

// Property C25: the cache locks are innermost (nothing is called with them held).
//@ locklevel ipCache.cacheMu 97
//@ locklevel pfxCache.cacheMu 97
//@ contract (*ipCache).get, (*pfxCache).get
//@   props C25
//@   nosafety
//@   acquires 97
//@   locks C25
//@ contract IP.Dedup, Prefix.Dedup
//@   props C25
//@   acquires 97
//@   locks C25
