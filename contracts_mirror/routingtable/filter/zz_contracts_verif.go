//go:build verif

package filter

// Contracts for govc (contract-based deductive verification, see /verif/DESIGN.md).
// Comments only; compiled only with the build tag "verif".

// What the tables rely on: policy evaluation works on a copy (it writes no
// object that existed before the call), returns a path object and never changes
// the eligibility mark of a path.
//@ contract Chain.Process
//@   trusted until the policy interpreter is under contract (C14) and its frame is proved (C13)
//@   ensures modPath != nil && modPath.HiddenReason == pa.HiddenReason
//@   modifies nothing
