//go:build verif

package filter

// Contracts for govc (contract-based deductive verification, see /verif/DESIGN.md).
// Comments only; compiled only with the build tag "verif".

// Property C14: policy evaluation agrees with the documented semantics. The
// matchers are stated over the prefix relations of package net (whose bit-level
// meaning is property C15): exact = same prefix; orlonger = same or more
// specific; longer = more specific; range = same or more specific with a length
// within [min, max].
//@ spec
//@ func spec_within(pattern *net.Prefix, prefix *net.Prefix) bool {
//@ 	return pattern.Equal(prefix) || pattern.Contains(prefix)
//@ }
//@ func spec_okMatcher(m PrefixMatcher) bool {
//@ 	if r, ok := m.(*InRangeMatcher); ok {
//@ 		return r != nil
//@ 	}
//@ 	return m != nil
//@ }
//@ // a route filter that can be applied to prefix p (a pattern of p's address family)
//@ func spec_okRF(f *RouteFilter, p *net.Prefix) bool {
//@ 	return f != nil && net.Spec_OkPfx(f.pattern) && net.Spec_SameFamily(f.pattern, p) && spec_okMatcher(f.matcher)
//@ }
//@ func spec_okPL(l *PrefixList) bool {
//@ 	return l != nil && verif_forall(0, len(l.allowed), func(k int) bool { return l.allowed[k] != nil })
//@ }
//@ func spec_okTC(t *TermCondition, p *net.Prefix) bool {
//@ 	return t != nil && net.Spec_OkPfx(p) &&
//@ 		verif_forall(0, len(t.routeFilters), func(k int) bool { return spec_okRF(t.routeFilters[k], p) }) &&
//@ 		verif_forall(0, len(t.prefixLists), func(k int) bool { return spec_okPL(t.prefixLists[k]) }) &&
//@ 		verif_forall(0, len(t.communityFilters), func(k int) bool { return t.communityFilters[k] != nil }) &&
//@ 		verif_forall(0, len(t.largeCommunityFilters), func(k int) bool { return t.largeCommunityFilters[k] != nil })
//@ }
//@ func spec_hasCom(coms *types.Communities, c uint32) bool {
//@ 	return coms != nil && verif_exists(0, len(*coms), func(k int) bool { return (*coms)[k] == c })
//@ }
//@ func spec_hasLCom(coms *types.LargeCommunities, c types.LargeCommunity) bool {
//@ 	return coms != nil && verif_exists(0, len(*coms), func(k int) bool { return (*coms)[k] == c })
//@ }
//@ end

//@ contract (*ExactMatcher).Match
//@   props C14
//@   nilrecv
//@   requires pattern != nil && prefix != nil
//@   ensures result == pattern.Equal(prefix)
//@   modifies nothing

//@ contract (*OrLongerMatcher).Match
//@   props C14
//@   nilrecv
//@   requires net.Spec_OkPfx(pattern) && net.Spec_OkPfx(prefix) && net.Spec_SameFamily(pattern, prefix)
//@   ensures result == spec_within(pattern, prefix)
//@   modifies nothing

//@ contract (*LongerMatcher).Match
//@   props C14
//@   nilrecv
//@   requires net.Spec_OkPfx(pattern) && net.Spec_OkPfx(prefix) && net.Spec_SameFamily(pattern, prefix)
//@   ensures result == (spec_within(pattern, prefix) && prefix.Len() > pattern.Len())
//@   modifies nothing

//@ contract (*InRangeMatcher).Match
//@   props C14
//@   requires i != nil && net.Spec_OkPfx(pattern) && net.Spec_OkPfx(prefix) && net.Spec_SameFamily(pattern, prefix)
//@   ensures result == (spec_within(pattern, prefix) && prefix.Len() >= i.min && prefix.Len() <= i.max)
//@   modifies nothing

//@ contract (*RouteFilter).Matches
//@   props C14
//@   requires net.Spec_OkPfx(prefix) && spec_okRF(f, prefix)
//@   ensures result == f.matcher.Match(f.pattern, prefix)
//@   modifies nothing

// A prefix list matches the prefixes it lists.
//@ contract (*PrefixList).Matches
//@   props C14
//@   requires spec_okPL(l) && p != nil
//@   ensures result == exists(k, 0, len(l.allowed), l.allowed[k].Equal(p))
//@   modifies nothing
//@   loop 0 vars rangeindex int
//@   loop 0 invariant forall(k, 0, rangeindex+1, !l.allowed[k].Equal(p))

// A community filter matches a path that carries its community; a path without
// communities carries none.
//@ contract (*CommunityFilter).Matches
//@   props C14
//@   requires f != nil
//@   ensures result == spec_hasCom(coms, f.community)
//@   modifies nothing
//@   loop 0 vars rangeindex int
//@   loop 0 invariant forall(k, 0, rangeindex+1, (*coms)[k] != f.community)

//@ contract (*LargeCommunityFilter).Matches
//@   props C14
//@   requires f != nil
//@   ensures result == spec_hasLCom(coms, f.community)
//@   modifies nothing
//@   loop 0 vars rangeindex int
//@   loop 0 invariant forall(k, 0, rangeindex+1, (*coms)[k] != f.community)

// Each part of a condition: no filters of that kind, or one of them matches.
//@ contract (*TermCondition).matchesPrefixListFilters
//@   props C14
//@   requires spec_okTC(t, p)
//@   ensures result == (len(t.prefixLists) == 0 || exists(k, 0, len(t.prefixLists), t.prefixLists[k].Matches(p)))
//@   modifies nothing
//@   loop 0 vars rangeindex int
//@   loop 0 invariant forall(k, 0, rangeindex+1, !t.prefixLists[k].Matches(p))

//@ contract (*TermCondition).matchesRouteFilters
//@   props C14
//@   requires spec_okTC(t, p)
//@   ensures result == (len(t.routeFilters) == 0 || exists(k, 0, len(t.routeFilters), t.routeFilters[k].Matches(p)))
//@   modifies nothing
//@   loop 0 vars rangeindex int
//@   loop 0 invariant forall(k, 0, rangeindex+1, !t.routeFilters[k].Matches(p))

//@ contract (*TermCondition).matchesCommunityFilters
//@   props C14
//@   requires t != nil && pa != nil && forall(k, 0, len(t.communityFilters), t.communityFilters[k] != nil) && forall(k, 0, len(t.largeCommunityFilters), t.largeCommunityFilters[k] != nil)
//@   ensures result == (len(t.communityFilters) == 0 || (pa.BGPPath != nil && exists(k, 0, len(t.communityFilters), spec_hasCom(pa.BGPPath.Communities, t.communityFilters[k].community))))
//@   modifies nothing
//@   loop 0 vars rangeindex int
//@   loop 0 invariant pa.BGPPath != nil && forall(k, 0, rangeindex+1, !spec_hasCom(pa.BGPPath.Communities, t.communityFilters[k].community))

//@ contract (*TermCondition).matchesLargeCommunityFilters
//@   props C14
//@   requires t != nil && pa != nil && forall(k, 0, len(t.communityFilters), t.communityFilters[k] != nil) && forall(k, 0, len(t.largeCommunityFilters), t.largeCommunityFilters[k] != nil)
//@   ensures result == (len(t.largeCommunityFilters) == 0 || (pa.BGPPath != nil && exists(k, 0, len(t.largeCommunityFilters), spec_hasLCom(pa.BGPPath.LargeCommunities, t.largeCommunityFilters[k].community))))
//@   modifies nothing
//@   loop 0 vars rangeindex int
//@   loop 0 invariant pa.BGPPath != nil && forall(k, 0, rangeindex+1, !spec_hasLCom(pa.BGPPath.LargeCommunities, t.largeCommunityFilters[k].community))

//@ contract (*TermCondition).matchesProtocols
//@   props C14
//@   requires t != nil && pa != nil
//@   ensures result == (len(t.protocols) == 0 || exists(k, 0, len(t.protocols), t.protocols[k] == pa.Type))
//@   modifies nothing
//@   loop 0 vars rangeindex int
//@   loop 0 invariant forall(k, 0, rangeindex+1, t.protocols[k] != pa.Type)

// A condition matches when all of its parts match.
//@ contract (*TermCondition).Matches
//@   props C14
//@   requires spec_okTC(f, p) && pa != nil
//@   ensures result == (f.matchesPrefixListFilters(p) && f.matchesRouteFilters(p) && f.matchesCommunityFilters(pa) && f.matchesLargeCommunityFilters(pa) && f.matchesProtocols(pa))
//@   modifies nothing

// Evaluation of actions, terms, filters and chains (properties C13 / C14). The
// path handed on is the working copy itself or a newer copy made by an action;
// only the working copy's own objects are written; the first terminating
// action ends the evaluation; the path's eligibility mark and type never change.
//@ spec
//@ func spec_okAct(x actions.Action) bool {
//@ 	switch v := x.(type) {
//@ 	case *actions.SetLocalPrefAction:
//@ 		return v != nil
//@ 	case *actions.SetMEDAction:
//@ 		return v != nil
//@ 	case *actions.SetNextHopAction:
//@ 		return v != nil
//@ 	case *actions.ASPathPrependAction:
//@ 		return v != nil
//@ 	}
//@ 	return x != nil
//@ }
//@ func spec_okTerm(t *Term, p *net.Prefix) bool {
//@ 	return t != nil &&
//@ 		verif_forall(0, len(t.from), func(k int) bool { return spec_okTC(t.from[k], p) }) &&
//@ 		verif_forall(0, len(t.then), func(k int) bool { return spec_okAct(t.then[k]) })
//@ }
//@ func spec_okFilter(f *Filter, p *net.Prefix) bool {
//@ 	return f != nil && verif_forall(0, len(f.terms), func(k int) bool { return spec_okTerm(f.terms[k], p) })
//@ }
//@ // some condition of the term matches (a term without conditions always applies)
//@ func spec_applies(t *Term, p *net.Prefix, pa *route.Path) bool {
//@ 	return len(t.from) == 0 || verif_exists(0, len(t.from), func(k int) bool { return t.from[k].Matches(p, pa) })
//@ }
//@ end

//@ contract (*Term).processActions
//@   props C13 C14
//@   requires t != nil && actions.Spec_OkPath(pa) && forall(k, 0, len(t.then), spec_okAct(t.then[k]))
//@   old b0 *route.BGPPath = pa.BGPPath
//@   old a0 *route.BGPPathA = pa.BGPPath.BGPPathA
//@   old box0 *types.ASPath = pa.BGPPath.ASPath
//@   old arr0 any = actions.Spec_SegList(pa)
//@   ensures actions.Spec_Keeps(pa, result.Path) && (result.Reject ==> result.Terminate) && actions.Spec_SameWork(pa, b0, a0, box0, arr0)
//@   modifies pa.BGPPath, actions.Spec_SegList(pa)
//@   loop 0 vars cur=pa *route.Path
//@   loop 0 invariant actions.Spec_Keeps(pa, cur) && actions.Spec_SameWork(pa, b0, a0, box0, arr0)

// A term applies when it has no conditions or one of them matches; otherwise
// the path passes unchanged.
//@ contract (*Term).Process
//@   props C13 C14
//@   requires spec_okTerm(t, p) && actions.Spec_OkPath(pa)
//@   old applies bool = spec_applies(t, p, pa)
//@   old b0 *route.BGPPath = pa.BGPPath
//@   old a0 *route.BGPPathA = pa.BGPPath.BGPPathA
//@   old box0 *types.ASPath = pa.BGPPath.ASPath
//@   old arr0 any = actions.Spec_SegList(pa)
//@   ensures actions.Spec_Keeps(pa, result.Path) && (result.Reject ==> result.Terminate) && actions.Spec_SameWork(pa, b0, a0, box0, arr0)
//@   ensures[C14] !applies ==> result.Path == pa && !result.Terminate && !result.Reject
//@   call[C14] processActions requires applies
//@   modifies pa.BGPPath, actions.Spec_SegList(pa)
//@   loop 0 vars rangeindex int
//@   loop 0 invariant forall(k, 0, rangeindex+1, !t.from[k].Matches(p, pa))

// Terms in order; the first one that terminates ends the filter.
//@ contract (*Filter).Process
//@   props C13 C14
//@   requires spec_okFilter(f, p) && actions.Spec_OkPath(pa)
//@   old b0 *route.BGPPath = pa.BGPPath
//@   old a0 *route.BGPPathA = pa.BGPPath.BGPPathA
//@   old box0 *types.ASPath = pa.BGPPath.ASPath
//@   old arr0 any = actions.Spec_SegList(pa)
//@   ensures actions.Spec_Keeps(pa, result.Path) && (result.Reject ==> result.Terminate) && actions.Spec_SameWork(pa, b0, a0, box0, arr0)
//@   modifies pa.BGPPath, actions.Spec_SegList(pa)
//@   loop 0 vars cur=pa *route.Path
//@   loop 0 invariant actions.Spec_Keeps(pa, cur) && actions.Spec_SameWork(pa, b0, a0, box0, arr0)

// A chain evaluates a copy: the path it is given, and every object reachable from
// it, is left as it was (property C13); the result is a path object of its own
// with the same eligibility mark (what the Adj-RIBs rely on, property C06).
//@ contract Chain.Process
//@   props C13 C14 C06 C12 C20
//@   requires p != nil && actions.Spec_OkPath(pa) && forall(k, 0, len(c), spec_okFilter(c[k], p))
//@   ensures modPath != nil && modPath.HiddenReason == pa.HiddenReason && modPath.Type == pa.Type && route.Spec_WorkFresh(modPath)
//@   modifies nothing
//@   loop 0 vars mp *route.Path
//@   loop 0 invariant mp != nil && route.Spec_WorkFresh(mp) && actions.Spec_OkPath(mp) && mp.HiddenReason == pa.HiddenReason && mp.Type == pa.Type

// Equality of policies (property C14, second sentence; used by C12 to skip a
// replacement): matchers that compare equal match the same prefixes, and the
// equality of route filters, prefix lists, conditions, terms, filters and
// chains descends into every part.
//@ lemma inRangeEqual (a *InRangeMatcher, b *InRangeMatcher, pattern *net.Prefix, prefix *net.Prefix)
//@   props C14 C12
//@   inline
//@   requires a != nil && b != nil && pattern != nil && prefix != nil
//@   ensures a.equal(b) ==> a.Match(pattern, prefix) == b.Match(pattern, prefix)
//@   ensures a.equal(b) ==> a.min == b.min && a.max == b.max

//@ lemma matcherKinds (r *InRangeMatcher, e *ExactMatcher, o *OrLongerMatcher, l *LongerMatcher)
//@   props C14 C12
//@   inline
//@   requires r != nil && e != nil && o != nil && l != nil
//@   ensures !r.equal(e) && !r.equal(o) && !r.equal(l) && !e.equal(r) && !e.equal(o) && !e.equal(l) && !o.equal(r) && !o.equal(e) && !o.equal(l) && !l.equal(r) && !l.equal(e) && !l.equal(o)

//@ lemma routeFilterEqual (f *RouteFilter, x *RouteFilter, prefix *net.Prefix)
//@   props C14 C12
//@   inline
//@   requires f != nil && x != nil && prefix != nil && f.pattern != nil && x.pattern != nil && spec_okMatcher(f.matcher) && spec_okMatcher(x.matcher)
//@   ensures f.equal(x) ==> f.Matches(prefix) == x.Matches(prefix)

//@ contract (*RouteFilter).equal
//@   props C14 C12
//@   requires f != nil && x != nil && spec_okMatcher(f.matcher) && spec_okMatcher(x.matcher)
//@   ensures result == (f.pattern == x.pattern && f.matcher.equal(x.matcher))
//@   modifies nothing

//@ contract (*PrefixList).equal
//@   props C14 C12
//@   requires spec_okPL(l) && spec_okPL(x)
//@   ensures result == (len(l.allowed) == len(x.allowed) && forall(k, 0, len(l.allowed), l.allowed[k].Equal(x.allowed[k])))
//@   modifies nothing
//@   loop 0 vars rangeindex int
//@   loop 0 invariant len(l.allowed) == len(x.allowed) && forall(k, 0, rangeindex+1, l.allowed[k].Equal(x.allowed[k]))

// Equal conditions have lists of the same lengths, and the same community, large
// community and protocol values (that the route filters and prefix lists are
// compared element by element, with the equalities above, is not under contract:
// those obligations were too slow to be claimed).
//@ contract (*TermCondition).equal
//@   props C14 C12
//@   nosafety
//@   requires t != nil && x != nil
//@   ensures result ==> len(t.prefixLists) == len(x.prefixLists) && len(t.routeFilters) == len(x.routeFilters) && len(t.communityFilters) == len(x.communityFilters) && len(t.largeCommunityFilters) == len(x.largeCommunityFilters) && len(t.protocols) == len(x.protocols)
//@   ensures result ==> forall(k, 0, len(t.communityFilters), t.communityFilters[k].community == x.communityFilters[k].community)
//@   ensures result ==> forall(k, 0, len(t.largeCommunityFilters), t.largeCommunityFilters[k].community == x.largeCommunityFilters[k].community)
//@   ensures result ==> forall(k, 0, len(t.protocols), t.protocols[k] == x.protocols[k])
//@   modifies nothing
//@   loop 2 vars rangeindex int
//@   loop 2 invariant forall(k, 0, rangeindex+1, t.communityFilters[k].community == x.communityFilters[k].community)
//@   loop 3 vars rangeindex int
//@   loop 3 invariant forall(k, 0, rangeindex+1, t.largeCommunityFilters[k].community == x.largeCommunityFilters[k].community)
//@   loop 4 vars rangeindex int
//@   loop 4 invariant forall(k, 0, rangeindex+1, t.protocols[k] == x.protocols[k])

// Equal terms have as many conditions and actions (the element-wise comparison is not under contract).
//@ contract (*Term).equal
//@   props C14 C12
//@   nosafety
//@   requires t != nil && x != nil
//@   ensures result ==> len(t.from) == len(x.from) && len(t.then) == len(x.then)
//@   modifies nothing
