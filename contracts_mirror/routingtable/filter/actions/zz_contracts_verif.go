//go:build verif

package actions

// Contracts for govc (contract-based deductive verification, see /verif/DESIGN.md).
// Comments only; compiled only with the build tag "verif".

// Properties C13 / C14: what each policy action does, and what it may write. An
// action is handed the policy's working copy pa. It either returns pa itself
// (after writing only pa's own BGP path object, attribute block or segment
// list) or a new copy made for the purpose; the path object's own fields
// (type, hidden reason) are never changed, and nothing else is written.
//@ import "github.com/bio-routing/bio-rd/protocols/bgp/types"
//@ spec
//@ func Spec_OkPath(pa *route.Path) bool {
//@ 	return pa != nil && (pa.BGPPath == nil || (pa.BGPPath.BGPPathA != nil && pa.BGPPath.ASPath != nil))
//@ }
//@ // the segment list of pa's AS path, as an object (nil when there is none)
//@ func Spec_SegList(pa *route.Path) any {
//@ 	if pa == nil || pa.BGPPath == nil || pa.BGPPath.ASPath == nil {
//@ 		return nil
//@ 	}
//@ 	return verif_arrayof(*pa.BGPPath.ASPath)
//@ }
//@ // what may have happened to the working copy pa itself: still the same BGP path
//@ // object and attribute block; the segment list is the old one or a new one
//@ func Spec_SameWork(pa *route.Path, b0 *route.BGPPath, a0 *route.BGPPathA, box0 *types.ASPath, arr0 any) bool {
//@ 	return pa.BGPPath == b0 && (b0 == nil || (b0.BGPPathA == a0 &&
//@ 		((b0.ASPath == box0 && Spec_SegList(pa) == arr0) || (verif_fresh(b0.ASPath) && verif_freshslice(*b0.ASPath)))))
//@ }
//@ func Spec_Keeps(pa *route.Path, q *route.Path) bool {
//@ 	return q != nil && q.HiddenReason == pa.HiddenReason && q.Type == pa.Type && (q == pa || route.Spec_WorkFresh(q)) && Spec_OkPath(q)
//@ }
//@ end

//@ contract (*AcceptAction).Do
//@   props C13 C14
//@   nilrecv
//@   ensures result.Path == pa && result.Terminate && !result.Reject
//@   modifies nothing

//@ contract (*RejectAction).Do
//@   props C13 C14
//@   nilrecv
//@   ensures result.Path == pa && result.Terminate && result.Reject
//@   modifies nothing

//@ contract (*SetLocalPrefAction).Do
//@   props C13 C14
//@   requires a != nil && Spec_OkPath(pa)
//@   ensures !result.Terminate && !result.Reject && Spec_Keeps(pa, result.Path)
//@   ensures pa.BGPPath == nil ==> result.Path == pa
//@   ensures pa.BGPPath != nil ==> result.Path != pa && result.Path.BGPPath != nil && result.Path.BGPPath.BGPPathA.LocalPref == a.pref && result.Path.BGPPath.BGPPathA.MED == pa.BGPPath.BGPPathA.MED && result.Path.BGPPath.BGPPathA.NextHop == pa.BGPPath.BGPPathA.NextHop
//@   modifies nothing

//@ contract (*SetMEDAction).Do
//@   props C13 C14
//@   requires a != nil && Spec_OkPath(pa)
//@   ensures !result.Terminate && !result.Reject && Spec_Keeps(pa, result.Path)
//@   ensures pa.BGPPath == nil ==> result.Path == pa
//@   ensures pa.BGPPath != nil ==> result.Path != pa && result.Path.BGPPath != nil && result.Path.BGPPath.BGPPathA.MED == a.med && result.Path.BGPPath.BGPPathA.LocalPref == pa.BGPPath.BGPPathA.LocalPref && result.Path.BGPPath.BGPPathA.NextHop == pa.BGPPath.BGPPathA.NextHop
//@   modifies nothing

//@ contract (*SetNextHopAction).Do
//@   props C13 C14
//@   requires a != nil && (pa == nil || Spec_OkPath(pa))
//@   ensures !result.Terminate && !result.Reject
//@   ensures pa != nil ==> Spec_Keeps(pa, result.Path) && result.Path != pa
//@   ensures pa != nil && pa.Type == route.BGPPathType && pa.BGPPath != nil ==> result.Path.BGPPath != nil && result.Path.BGPPath.BGPPathA.NextHop == a.ip && result.Path.BGPPath.BGPPathA.LocalPref == pa.BGPPath.BGPPathA.LocalPref && result.Path.BGPPath.BGPPathA.MED == pa.BGPPath.BGPPathA.MED
//@   modifies nothing

// Prepending works in place, on the working copy's own objects.
//@ contract (*ASPathPrependAction).Do
//@   props C13 C14
//@   requires a != nil && Spec_OkPath(pa)
//@   old box0 *types.ASPath = pa.BGPPath.ASPath
//@   old arr0 any = Spec_SegList(pa)
//@   old b0 *route.BGPPath = pa.BGPPath
//@   old a0 *route.BGPPathA = pa.BGPPath.BGPPathA
//@   ensures !result.Terminate && !result.Reject && result.Path == pa && Spec_OkPath(pa) && Spec_SameWork(pa, b0, a0, box0, arr0)
//@   modifies pa.BGPPath, Spec_SegList(pa)

// Two actions that compare equal have the same parameters.
//@ lemma setLocalPrefEqual (a *SetLocalPrefAction, b *SetLocalPrefAction)
//@   props C14 C12
//@   inline
//@   requires a != nil && b != nil
//@   ensures a.Equal(b) ==> a.pref == b.pref

//@ lemma setMEDEqual (a *SetMEDAction, b *SetMEDAction)
//@   props C14 C12
//@   inline
//@   requires a != nil && b != nil
//@   ensures a.Equal(b) ==> a.med == b.med

//@ lemma setNextHopEqual (a *SetNextHopAction, b *SetNextHopAction)
//@   props C14 C12
//@   inline
//@   requires a != nil && b != nil
//@   ensures a.Equal(b) ==> a.ip == b.ip

//@ lemma prependEqual (a *ASPathPrependAction, b *ASPathPrependAction)
//@   props C14 C12
//@   inline
//@   requires a != nil && b != nil
//@   ensures a.Equal(b) ==> a.asn == b.asn && a.times == b.times

// Actions of different kinds never compare equal.
//@ lemma kindsDiffer (a *SetLocalPrefAction, m *SetMEDAction, n *SetNextHopAction, p *ASPathPrependAction, x *AcceptAction, r *RejectAction)
//@   props C14 C12
//@   inline
//@   requires a != nil && m != nil && n != nil && p != nil && x != nil && r != nil
//@   ensures !a.Equal(m) && !a.Equal(n) && !a.Equal(p) && !a.Equal(x) && !a.Equal(r) && !m.Equal(a) && !n.Equal(a) && !p.Equal(a) && !x.Equal(r) && !r.Equal(x) && !x.Equal(a) && !r.Equal(a)
