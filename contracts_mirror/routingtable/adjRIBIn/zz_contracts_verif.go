//go:build verif

package adjRIBIn

// Contracts for govc (contract-based deductive verification, see /verif/DESIGN.md).
// Comments only; compiled only with the build tag "verif".

// Property C06: a path marked ineligible is never handed to a client table. The
// mark is the path's HiddenReason (policy evaluation preserves it), so the
// obligation sits at every call that hands a path to a client.
//@ contract (*AdjRIBIn).addPath
//@   props C06 C20
//@   nosafety
//@   requires pfx != nil && p != nil
//@   call RouteTableClient.AddPath args cpfx *net.Prefix, q *route.Path requires q.HiddenReason == route.HiddenReasonNone
//@   call[C20] RoutingTable.AddPath args cpfx *net.Prefix, q *route.Path requires cpfx == pfx && q == p
//@   call[C20] RoutingTable.ReplacePath args cpfx *net.Prefix, q *route.Path requires cpfx == pfx && q == p && !a.sessionAttrs.AddPathRX
//@   call[C20] RoutingTable.RemovePath args cpfx *net.Prefix, q *route.Path requires cpfx == pfx && a.sessionAttrs.AddPathRX && q.BGPPath.PathIdentifier == p.BGPPath.PathIdentifier

// Property C20 (withdraw side): exactly the path with the NLRI's path identifier
// is removed on an add-path session.
//@ contract (*AdjRIBIn).removePath
//@   props C20
//@   nosafety
//@   requires pfx != nil
//@   call RoutingTable.RemovePath args cpfx *net.Prefix, q *route.Path requires cpfx == pfx && (a.sessionAttrs.AddPathRX && p != nil ==> q.BGPPath.PathIdentifier == p.BGPPath.PathIdentifier)

// Property C12 (import side): when the new policy rejects a path the old policy
// accepted, the client must be told to remove the path it holds, i.e. the path as
// rewritten by the OLD policy.
//@ contract (*AdjRIBIn).ReplaceFilterChain
//@   props C06 C12
//@   nosafety
//@   call[C12] RouteTableClient.RemovePath args cpfx *net.Prefix, q *route.Path vars currentPath *route.Path requires q == currentPath
//@   call RouteTableClient.AddPath args cpfx *net.Prefix, q *route.Path requires q.HiddenReason == route.HiddenReasonNone
//@   call RouteTableClient.ReplacePath args cpfx *net.Prefix, old *route.Path, q *route.Path requires q.HiddenReason == route.HiddenReasonNone

// Property C07 (what detaching the table from a client removes): the client is
// told to remove the path as the filter chain exported it - the path it holds -
// and only paths that were announced to it (eligible ones).
//@ contract (*AdjRIBIn).Unregister
//@   props C07 C06
//@   nosafety
//@   call RouteTableClient.RemovePath args cpfx *net.Prefix, q *route.Path vars exported *route.Path, p *route.Path requires q == exported && p.HiddenReason == route.HiddenReasonNone

//@ contract (*AdjRIBIn).UpdateNewClient
//@   props C06
//@   nosafety
//@   call RouteTableClient.AddPathInitialDump args cpfx *net.Prefix, q *route.Path requires q.HiddenReason == route.HiddenReasonNone

// The RFC 9234 check itself (statement: "fails the RFC 9234 OTC check").
//@ spec
//@ func spec_otcIneligible(enabled bool, adv bool, pr uint8, otc uint32, peerASN uint32) bool {
//@ 	if !enabled || !adv || otc == 0 {
//@ 		return false
//@ 	}
//@ 	if pr == packet.PeerRoleRoleCustomer || pr == packet.PeerRoleRoleRSClient {
//@ 		return true
//@ 	}
//@ 	return pr == packet.PeerRoleRolePeer && otc != peerASN
//@ }
//@ end

//@ contract (*AdjRIBIn).validatePathOnlyToCustomer
//@   props C06
//@   requires path != nil && path.BGPPath != nil && path.BGPPath.BGPPathA != nil
//@   old otc0 uint32 = path.BGPPath.BGPPathA.OnlyToCustomer
//@   ensures result == !spec_otcIneligible(a.sessionAttrs.PeerRoleEnabled, a.sessionAttrs.PeerRoleAdvByPeer, a.sessionAttrs.PeerRoleRemote, otc0, a.sessionAttrs.PeerASN)

//@ contract (*AdjRIBIn).validatePath
//@   props C06
//@   nosafety
//@   requires p != nil && p.BGPPath != nil && p.BGPPath.BGPPathA != nil && a.vrf != nil
//@   old otc0 uint32 = p.BGPPath.BGPPathA.OnlyToCustomer
//@   ensures result == route.HiddenReasonNone ==> a.sessionAttrs.IBGP || (p.BGPPath.ASPath != nil && len(*p.BGPPath.ASPath) > 0)
//@   ensures result == route.HiddenReasonNone ==> p.BGPPath.BGPPathA.OriginatorID != a.sessionAttrs.RouterID
//@   ensures result == route.HiddenReasonNone ==> !spec_otcIneligible(a.sessionAttrs.PeerRoleEnabled, a.sessionAttrs.PeerRoleAdvByPeer, a.sessionAttrs.PeerRoleRemote, otc0, a.sessionAttrs.PeerASN)

// Properties C25 / C26 (see routingtable/zz_contracts_verif.go for what is
// decided). The Adj-RIB-In's lock is the first taken on the way of a route
// through the tables.
//@ locklevel AdjRIBIn.mu 10
//@ guarded AdjRIBIn.exportFilterChain by mu

//@ contract (*AdjRIBIn).Dump, (*AdjRIBIn).Flush, (*AdjRIBIn).ReplaceFilterChain, (*AdjRIBIn).UpdateNewClient, (*AdjRIBIn).AddPath, (*AdjRIBIn).RemovePath
//@   props C25 C26
//@   nosafety
//@   acquires 10
//@   locks C25
//@   guards C26

// Called with the write lock held.
//@ contract (*AdjRIBIn).addPath, (*AdjRIBIn).removePath, (*AdjRIBIn).removePathsFromClients
//@   props C25 C26
//@   nosafety
//@   requires verif_wheld(&a.mu)
//@   acquires 11
//@   locks C25
//@   guards C26

//@ contract (*AdjRIBIn).Register, (*AdjRIBIn).RegisterWithOptions
//@   props C25
//@   nosafety
//@   acquires 10
//@   locks C25

//@ contract (*AdjRIBIn).ClientCount
//@   props C25
//@   nosafety
//@   acquires 11
//@   locks C25

//@ contract (*AdjRIBIn).Unregister
//@   props C25 C26
//@   acquires 10
//@   locks C25
//@   guards C26

//@ contract (*AdjRIBIn).LPM, (*AdjRIBIn).Get, (*AdjRIBIn).GetLonger
//@   props C25
//@   nosafety
//@   acquires 80
//@   locks C25

// validatePath consults the VRF's reference counters (innermost locks).
//@ contract (*AdjRIBIn).validatePath, (*AdjRIBIn).ourASNsInPath
//@   props C25
//@   nosafety
//@   acquires 96
//@   locks C25
