//go:build verif

package mergedlocrib

// Contracts for govc (contract-based deductive verification, see /verif/DESIGN.md).
// Comments only; compiled only with the build tag "verif".

// Property C29: a route is in the merged table exactly while some source
// advertises it. The sources of a route form a set (no source twice), so that
// one withdrawal per source empties it however often the source advertised.
//@ spec
//@ func spec_hasSrc(rc *routeContainer, s interface{}) bool {
//@ 	return verif_exists(0, len(rc.sources), func(i int) bool { return rc.sources[i] == s })
//@ }
//@ func spec_nodup(rc *routeContainer) bool {
//@ 	return verif_forall(0, len(rc.sources), func(i int) bool {
//@ 		return verif_forall(0, len(rc.sources), func(j int) bool { return i == j || rc.sources[i] != rc.sources[j] })
//@ 	})
//@ }
//@ end

//@ contract newRouteContainer
//@   props C29
//@   ensures[C29] result != nil && verif_fresh(result) && result.route == route && len(result.sources) == 1 && result.sources[0] == source && spec_nodup(result)
//@   modifies nothing

//@ contract (*routeContainer).getSourceIndex
//@   props C29
//@   requires rc != nil
//@   ensures[C29] result >= -1 && result < len(rc.sources)
//@   ensures[C29] result >= 0 ==> rc.sources[result] == src
//@   ensures[C29] result < 0 ==> !spec_hasSrc(rc, src)
//@   modifies nothing
//@   loop 0 vars rangeindex int
//@   loop 0 invariant forall(k, 0, rangeindex+1, rc.sources[k] != src)

// Adding a source is idempotent: afterwards x is a source iff it was one or is the added one.
//@ contract (*routeContainer).addSource
//@   props C29
//@   requires rc != nil && spec_nodup(rc)
//@   logical x interface{}
//@   old had bool = spec_hasSrc(rc, x)
//@   ensures[C29] spec_nodup(rc)
//@   ensures[C29] spec_hasSrc(rc, x) == (had || x == src)
//@   modifies rc, verif_arrayof(rc.sources)

// Removing a source removes exactly it.
//@ contract (*routeContainer).removeSource
//@   props C29
//@   requires rc != nil && spec_nodup(rc)
//@   logical x interface{}
//@   old had bool = spec_hasSrc(rc, x)
//@   ensures[C29] spec_nodup(rc)
//@   ensures[C29] spec_hasSrc(rc, x) == (had && x != src)
//@   modifies rc, verif_arrayof(rc.sources)

//@ contract (*routeContainer).srcCount
//@   props C29
//@   requires rc != nil
//@   ensures[C29] result == len(rc.sources)
//@   modifies nothing

// The merged table, key by key: the container stored under a key has at least
// one source (a route whose last source went is deleted) and no source twice.
// The route hash is an uninterpreted function of the API route object
// (protobuf marshalling and SHA-1 are not modelled). That two keys never share
// a container or a source list (so that work on one key leaves the others'
// sources alone) is not under contract.
//@ spec
//@ func spec_h(r *routeapi.Route) [sha1.Size]byte {
//@ 	return verif_uf_val[[sha1.Size]byte]("hashRoute", r)
//@ }
//@ func spec_hasKey(rtm *MergedLocRIB, h [sha1.Size]byte) bool {
//@ 	_, ok := rtm.routes[h]
//@ 	return ok
//@ }
//@ func spec_okRC(rc *routeContainer) bool {
//@ 	return rc != nil && len(rc.sources) >= 1 && spec_nodup(rc)
//@ }
//@ // the entry under key h, if there is one, is well-formed
//@ func spec_okKey(rtm *MergedLocRIB, h [sha1.Size]byte) bool {
//@ 	return !spec_hasKey(rtm, h) || spec_okRC(rtm.routes[h])
//@ }
//@ end

//@ contract New
//@   props C29
//@   ensures[C29] result != nil && result.routes != nil && len(result.routes) == 0 && result.locRIB == locRIB

//@ contract hashRoute
//@   props C29
//@   trusted protobuf marshalling and SHA-1 are not modelled: the hash is an uninterpreted function of the route object
//@   ensures[C29] result1 == nil ==> result0 == spec_h(route)
//@   modifies nothing

// Removing a source from the route under key h: the key goes exactly when no
// other source remains, and the Loc-RIB is told only then. Which keys exist
// otherwise, and which containers they hold, does not change.
//@ contract (*MergedLocRIB)._delRoute
//@   props C29
//@   nosafety
//@   requires rtm != nil && rtm.routes != nil && spec_hasKey(rtm, h) && spec_okKey(rtm, h)
//@   logical x interface{}
//@   logical g [sha1.Size]byte
//@   old hadx bool = spec_hasSrc(rtm.routes[h], x)
//@   old hadg bool = spec_hasKey(rtm, g)
//@   old rcg *routeContainer = rtm.routes[g]
//@   ensures[C29] spec_okKey(rtm, h)
//@   ensures[C29] g != h ==> spec_hasKey(rtm, g) == hadg && rtm.routes[g] == rcg
//@   ensures[C29] spec_hasKey(rtm, h) ==> spec_hasSrc(rtm.routes[h], x) == (hadx && x != src)
//@   ensures[C29] !spec_hasKey(rtm, h) ==> !(hadx && x != src)
//@   call[C29] LocRIB.RemovePath requires len(rtm.routes[h].sources) == 0

// Advertising: afterwards the route is stored with cc among its sources; the
// Loc-RIB is told only when the route was not stored before.
//@ contract (*MergedLocRIB).AddRoute
//@   props C29
//@   nosafety
//@   requires rtm != nil && r != nil && rtm.routes != nil && spec_okKey(rtm, spec_h(r))
//@   logical x interface{}
//@   logical g [sha1.Size]byte
//@   old hadKey bool = spec_hasKey(rtm, spec_h(r))
//@   old hadx bool = spec_hasKey(rtm, spec_h(r)) && spec_hasSrc(rtm.routes[spec_h(r)], x)
//@   old hadg bool = spec_hasKey(rtm, g)
//@   old rcg *routeContainer = rtm.routes[g]
//@   ensures[C29] spec_okKey(rtm, spec_h(r))
//@   ensures[C29] result == nil ==> spec_hasKey(rtm, spec_h(r)) && spec_hasSrc(rtm.routes[spec_h(r)], x) == (hadx || x == cc)
//@   ensures[C29] result != nil || g != spec_h(r) ==> spec_hasKey(rtm, g) == hadg && rtm.routes[g] == rcg
//@   call[C29] LocRIB.AddPath requires !hadKey

// Withdrawing: cc is no longer a source of the route; the route stays exactly
// when another source remains.
//@ contract (*MergedLocRIB).RemoveRoute
//@   props C29
//@   nosafety
//@   requires rtm != nil && r != nil && rtm.routes != nil && spec_okKey(rtm, spec_h(r))
//@   logical x interface{}
//@   logical g [sha1.Size]byte
//@   old hadx bool = spec_hasKey(rtm, spec_h(r)) && spec_hasSrc(rtm.routes[spec_h(r)], x)
//@   old hadg bool = spec_hasKey(rtm, g)
//@   old rcg *routeContainer = rtm.routes[g]
//@   ensures[C29] spec_okKey(rtm, spec_h(r))
//@   ensures[C29] result == nil && spec_hasKey(rtm, spec_h(r)) ==> spec_hasSrc(rtm.routes[spec_h(r)], x) == (hadx && x != cc)
//@   ensures[C29] result == nil && !spec_hasKey(rtm, spec_h(r)) ==> !(hadx && x != cc)
//@   ensures[C29] result != nil || g != spec_h(r) ==> spec_hasKey(rtm, g) == hadg && rtm.routes[g] == rcg

// Properties C25 / C26 (see routingtable/zz_contracts_verif.go for what is
// decided): the merged table's lock is taken before the Loc-RIB's (routes are
// handed to the Loc-RIB with it held); its route map is touched only under it.
//@ locklevel MergedLocRIB.routesMu 8
//@ guarded MergedLocRIB.routes by routesMu
//@ contract (*MergedLocRIB).DropAllBySrc, (*MergedLocRIB).AddRoute, (*MergedLocRIB).RemoveRoute, (*MergedLocRIB).Metrics
//@   props C25 C26
//@   nosafety
//@   acquires 8
//@   locks C25
//@   guards C26
//@ contract (*MergedLocRIB)._delRoute
//@   props C25 C26
//@   nosafety
//@   requires verif_wheld(&rtm.routesMu)
//@   acquires 9
//@   locks C25
//@   guards C26
//@ contract (*MergedLocRIB)._getRoutesWithSingleSourceCount
//@   props C25 C26
//@   nosafety
//@   requires verif_held(&rtm.routesMu)
//@   acquires 9
//@   locks C25
//@   guards C26
