//go:build verif

package mergedlocrib

// Contracts for govc (contract-based deductive verification, see /verif/DESIGN.md).
// Comments only; compiled only with the build tag "verif".

// Property C29: a route is in the merged table exactly while some source
// advertises it. The sources of a route form a set (no source twice), so that
// one withdrawal per source empties it however often the source advertised.
//@ spec
//@ func spec_hasSrc(rc *routeContainer, s interface{}) bool {
//@ 	return verif_exists(0, len(rc.sources), func(i int) bool { return rc.sources[i] == s })
//@ }
//@ func spec_nodup(rc *routeContainer) bool {
//@ 	return verif_forall(0, len(rc.sources), func(i int) bool {
//@ 		return verif_forall(0, len(rc.sources), func(j int) bool { return i == j || rc.sources[i] != rc.sources[j] })
//@ 	})
//@ }
//@ end

//@ contract newRouteContainer
//@   props C29
//@   ensures result != nil && verif_fresh(result) && result.route == route && len(result.sources) == 1 && result.sources[0] == source && spec_nodup(result)
//@   modifies nothing

//@ contract (*routeContainer).getSourceIndex
//@   props C29
//@   requires rc != nil
//@   ensures result >= -1 && result < len(rc.sources)
//@   ensures result >= 0 ==> rc.sources[result] == src
//@   ensures result < 0 ==> !spec_hasSrc(rc, src)
//@   modifies nothing
//@   loop 0 vars rangeindex int
//@   loop 0 invariant forall(k, 0, rangeindex+1, rc.sources[k] != src)

// Adding a source is idempotent: afterwards x is a source iff it was one or is the added one.
//@ contract (*routeContainer).addSource
//@   props C29
//@   requires rc != nil && spec_nodup(rc)
//@   logical x interface{}
//@   old had bool = spec_hasSrc(rc, x)
//@   ensures spec_nodup(rc)
//@   ensures spec_hasSrc(rc, x) == (had || x == src)
//@   modifies rc, verif_arrayof(rc.sources)

// Removing a source removes exactly it.
//@ contract (*routeContainer).removeSource
//@   props C29
//@   requires rc != nil && spec_nodup(rc)
//@   logical x interface{}
//@   old had bool = spec_hasSrc(rc, x)
//@   ensures spec_nodup(rc)
//@   ensures spec_hasSrc(rc, x) == (had && x != src)
//@   modifies rc, verif_arrayof(rc.sources)

//@ contract (*routeContainer).srcCount
//@   props C29
//@   requires rc != nil
//@   ensures result == len(rc.sources)
//@   modifies nothing
