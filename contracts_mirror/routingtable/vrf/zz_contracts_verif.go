//go:build verif

package vrf

// Contracts for govc (contract-based deductive verification, see /verif/DESIGN.md).
// Comments only; compiled only with the build tag "verif".

// Property C25, the part a sequential contract decides (see
// routingtable/zz_contracts_verif.go): the registry's lock is taken before a
// VRF's, both before any table lock (DisposeAll disposes Loc-RIBs with the
// registry lock held); every operation leaves the locks as it found them.
//@ locklevel VRFRegistry.mu 6
//@ locklevel VRF.mu 7

//@ contract (*VRFRegistry).CreateVRFIfNotExists, (*VRFRegistry).registerVRF, (*VRFRegistry).UnregisterVRF, (*VRFRegistry).DisposeAll, (*VRFRegistry).List, (*VRFRegistry).GetVRFByName
//@   props C25
//@   nosafety
//@   acquires 6
//@   locks C25

//@ contract (*VRF).createLocRIB, (*VRF).CreateIPv4UnicastLocRIB, (*VRF).CreateIPv6UnicastLocRIB, (*VRF).ribForAddressFamily, (*VRF).IPv4UnicastRIB, (*VRF).IPv6UnicastRIB
//@   props C25
//@   nosafety
//@   acquires 7
//@   locks C25

//@ contract (*VRF).Unregister
//@   props C25
//@   nosafety
//@   acquires 6
//@   locks C25

// Property C26: the RIB maps of a VRF and the registry's VRF map are touched
// only with their lock held.
//@ guarded VRF.ribs by mu
//@ guarded VRF.ribNames by mu
//@ guarded VRFRegistry.vrfs by mu

//@ contract (*VRFRegistry).CreateVRFIfNotExists, (*VRFRegistry).registerVRF, (*VRFRegistry).UnregisterVRF, (*VRFRegistry).DisposeAll, (*VRFRegistry).List, (*VRFRegistry).GetVRFByName, (*VRF).createLocRIB, (*VRF).ribForAddressFamily
//@   props C26
//@   guards C26

//@ contract (*VRF).RIBByName, (*VRF).Dispose, (*VRF).allRIBs, MetricsForVRF
//@   props C25 C26
//@   nosafety
//@   acquires 7
//@   locks C25
//@   guards C26

// Called with the VRF lock held.
//@ contract (*VRF).nameForRIB
//@   props C25 C26
//@   nosafety
//@   requires verif_wheld(&v.mu)
//@   acquires 8
//@   locks C25
//@   guards C26
