//go:build verif

package locRIB

// Contracts for govc (contract-based deductive verification, see /verif/DESIGN.md).
// Comments only; compiled only with the build tag "verif".

// Seen from the tables that feed it, a Loc-RIB operation writes the Loc-RIB's own
// objects only (its table, its clients' tables), none of which the feeding table
// reads: to the caller nothing it can observe changes. Nothing about the
// result is promised here.
//@ contract (*LocRIB).AddPath, (*LocRIB).RemovePath
//@   props C29
//@   trusted the Loc-RIB and its clients write none of the caller's objects (table isolation, property C13); the Loc-RIB's own state is not read by the caller
//@   modifies nothing

// Properties C25 / C26 (see routingtable/zz_contracts_verif.go for what is
// decided). The Loc-RIB's lock is taken after the lock of the Adj-RIB-In that
// feeds it and before the locks of the Adj-RIBs-Out it feeds.
//@ locklevel LocRIB.mu 20
//@ guarded LocRIB.countTarget by mu

//@ contract (*LocRIB).SetCountTarget
//@   props C25 C26
//@   nosafety
//@   acquires 20
//@   locks C25
//@   guards C26

//@ contract (*LocRIB).Dump, (*LocRIB).UpdateNewClient, (*LocRIB).RefreshClient, (*LocRIB).AddPath, (*LocRIB).RemovePath, (*LocRIB).ReplacePath, (*LocRIB).ContainsPfxPath, (*LocRIB).String, (*LocRIB).Print, (*LocRIB).AddPathInitialDump
//@   props C25 C26
//@   nosafety
//@   acquires 20
//@   locks C25
//@   guards C26

// Called with the Loc-RIB's write lock held.
//@ contract (*LocRIB).propagateChanges, (*LocRIB).addPathsToClients, (*LocRIB).removePathsFromClients
//@   props C25 C26
//@   nosafety
//@   requires verif_wheld(&a.mu)
//@   acquires 21
//@   locks C25
//@   guards C26

// Registration tells the new client the table's content (under the read lock).
//@ contract (*LocRIB).Register, (*LocRIB).RegisterWithOptions
//@   props C25 C26
//@   nosafety
//@   acquires 10
//@   locks C25
//@   guards C26

//@ contract (*LocRIB).Unregister, (*LocRIB).ClientCount, (*LocRIB).Dispose
//@   props C25 C26
//@   nosafety
//@   acquires 21
//@   locks C25
//@   guards C26

//@ contract (*LocRIB).LPM, (*LocRIB).Get, (*LocRIB).GetLonger
//@   props C25 C26
//@   nosafety
//@   acquires 80
//@   locks C25
//@   guards C26
