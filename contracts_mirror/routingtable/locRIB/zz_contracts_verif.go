//go:build verif

package locRIB

// Contracts for govc (contract-based deductive verification, see /verif/DESIGN.md).
// Comments only; compiled only with the build tag "verif".

// Seen from the tables that feed it, a Loc-RIB operation writes the Loc-RIB's own
// objects only (its table, its clients' tables), none of which the feeding table
// reads: to the caller nothing it can observe changes. Nothing about the
// result is promised here.
//@ contract (*LocRIB).AddPath, (*LocRIB).RemovePath
//@   props C29
//@   trusted the Loc-RIB and its clients write none of the caller's objects (table isolation, property C13); the Loc-RIB's own state is not read by the caller
//@   modifies nothing
