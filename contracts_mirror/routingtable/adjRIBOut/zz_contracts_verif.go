//go:build verif

package adjRIBOut

// Contracts for govc (contract-based deductive verification, see /verif/DESIGN.md).
// Comments only; compiled only with the build tag "verif".

// Property C11: path identifiers for add-path send. The manager's representation
// invariant: the in-use counter is the number of identifiers in the table.
//@ spec
//@ func spec_hasID(fm *pathIDManager, id uint32) bool {
//@ 	_, ok := fm.ids[id]
//@ 	return ok
//@ }
//@ func spec_hasHash(fm *pathIDManager, h string) bool {
//@ 	_, ok := fm.idByPath[h]
//@ 	return ok
//@ }
//@ // the identifier a hash maps to is in the table with a positive reference count
//@ func spec_linked(fm *pathIDManager, h string) bool {
//@ 	return !spec_hasHash(fm, h) || (spec_hasID(fm, fm.idByPath[h]) && fm.ids[fm.idByPath[h]] >= 1)
//@ }
//@ // different attribute hashes have different identifiers
//@ func spec_distinct(fm *pathIDManager, g string, h string) bool {
//@ 	return g == h || !spec_hasHash(fm, g) || !spec_hasHash(fm, h) || fm.idByPath[g] != fm.idByPath[h]
//@ }
//@ func spec_inv(fm *pathIDManager) bool {
//@ 	return fm.ids != nil && fm.idByPath != nil && int(fm.used) == len(fm.ids) &&
//@ 		verif_all(func(h string) bool { return spec_linked(fm, h) }) &&
//@ 		verif_all(func(g string) bool { return verif_all(func(h string) bool { return spec_distinct(fm, g, h) }) })
//@ }
//@ end

//@ contract newPathIDManager
//@   props C11
//@   ensures result != nil && spec_inv(result) && result.used == 0

// A new attribute set gets an identifier that was not in the table (the table
// grows by one); a known one gets the identifier it already has. Allocation
// succeeds whenever fewer than 2^32-1 identifiers are in use.
//@ contract (*pathIDManager).addPath
//@   props C11
//@   requires fm != nil && p != nil && p.BGPPath != nil && spec_inv(fm)
//@   requires fm.ids[fm.idByPath[verif_uf_str("ComputeHash", p.BGPPath)]] < 1<<63
//@   old h string = verif_uf_str("ComputeHash", p.BGPPath)
//@   old known bool = spec_hasHash(fm, verif_uf_str("ComputeHash", p.BGPPath))
//@   old oldID uint32 = fm.idByPath[verif_uf_str("ComputeHash", p.BGPPath)]
//@   old used0 uint32 = fm.used
//@   old nIDs int = len(fm.ids)
//@   ensures spec_inv(fm)
//@   ensures result1 == nil ==> spec_hasHash(fm, h) && fm.idByPath[h] == result0 && spec_hasID(fm, result0) && fm.ids[result0] >= 1
//@   ensures known ==> result1 == nil && result0 == oldID && len(fm.ids) == nIDs
//@   ensures !known && result1 == nil ==> len(fm.ids) == nIDs+1 && fm.ids[result0] == 1
//@   ensures !known && used0 != 4294967295 ==> result1 == nil
//@   ensures result1 != nil ==> len(fm.ids) == nIDs

// A release names the identifier the path was registered with, and frees it
// when the last reference goes.
//@ contract (*pathIDManager).releasePath
//@   props C11
//@   requires fm != nil && p != nil && p.BGPPath != nil && spec_inv(fm)
//@   requires p.Type == route.BGPPathType && p.BGPPath.BGPPathA != nil
//@   old h string = verif_uf_str("ComputeHash", p.BGPPath)
//@   old known bool = spec_hasHash(fm, verif_uf_str("ComputeHash", p.BGPPath))
//@   old oldID uint32 = fm.idByPath[verif_uf_str("ComputeHash", p.BGPPath)]
//@   old refs uint64 = fm.ids[fm.idByPath[verif_uf_str("ComputeHash", p.BGPPath)]]
//@   ensures spec_inv(fm)
//@   ensures known ==> result1 == nil && result0 == oldID
//@   ensures !known ==> result1 != nil
//@   ensures known && refs > 1 ==> spec_hasHash(fm, h) && fm.idByPath[h] == oldID && fm.ids[oldID] == refs-1
//@   ensures known && refs == 1 ==> !spec_hasHash(fm, h) && !spec_hasID(fm, oldID)

// The path stored (and handed to the clients) on an add-path session carries
// the identifier the manager holds for its attributes.
//@ contract (*AdjRIBOut).addPath
//@   props C11
//@   nosafety
//@   requires a != nil && pfx != nil && p != nil && p.BGPPath != nil && a.pathIDManager != nil && spec_inv(a.pathIDManager)
//@   call RoutingTable.AddPath args cpfx *bnet.Prefix, q *route.Path requires a.sessionAttrs.AddPathTX && cpfx == pfx && q == p && spec_hasHash(a.pathIDManager, verif_uf_str("ComputeHash", q.BGPPath)) && a.pathIDManager.idByPath[verif_uf_str("ComputeHash", q.BGPPath)] == q.BGPPath.PathIdentifier
//@   call RouteTableClient.AddPath args cpfx *bnet.Prefix, q *route.Path requires cpfx == pfx && q == p

// Property C09: export rules of the Adj-RIB-Out and the attribute rewrites that go
// with them. (p is the session's private copy of the Loc-RIB path.)
//@ spec
//@ func spec_hasComm(p *route.Path, c uint32) bool {
//@ 	if p.BGPPath == nil || p.BGPPath.Communities == nil {
//@ 		return false
//@ 	}
//@ 	cs := *p.BGPPath.Communities
//@ 	return verif_exists(0, len(cs), func(i int) bool { return cs[i] == c })
//@ }
//@ func spec_okBGP(p *route.Path) bool {
//@ 	return p != nil && p.BGPPath != nil && p.BGPPath.BGPPathA != nil && p.BGPPath.ASPath != nil && p.BGPPath.BGPPathA.Source != nil
//@ }
//@ end

// Not from one iBGP peer to a non-client iBGP peer; reflected routes carry an
// ORIGINATOR_ID and a CLUSTER_LIST that starts with the local cluster ID.
//@ contract (*AdjRIBOut).checkPropagateUpdateIBGP
//@   props C09
//@   requires a != nil && spec_okBGP(p) && a.sessionAttrs.IBGP
//@   old ebgp bool = p.BGPPath.BGPPathA.EBGP
//@   old redist bool = p.RedistributedFrom != 0
//@   old oid uint32 = p.BGPPath.BGPPathA.OriginatorID
//@   old src uint32 = p.BGPPath.BGPPathA.Source.ToUint32()
//@   ensures propagate ==> retPath == p
//@   ensures propagate && !redist && !a.sessionAttrs.RouteReflectorClient ==> ebgp
//@   ensures propagate && !redist && a.sessionAttrs.RouteReflectorClient ==> p.BGPPath.ClusterList != nil && len(*p.BGPPath.ClusterList) >= 1 && (*p.BGPPath.ClusterList)[0] == a.sessionAttrs.ClusterID
//@   ensures propagate && !redist && a.sessionAttrs.RouteReflectorClient ==> p.BGPPath.BGPPathA.OriginatorID == ite(oid != 0, oid, src)

// To an eBGP peer that is not a route-server client: local ASN prepended, local
// address as next hop. RFC 9234: nothing with OTC to a provider, peer or route
// server; OTC added towards customers, peers and route-server clients.
//@ contract (*AdjRIBOut).checkPropagateUpdateEBGP
//@   props C09
//@   requires a != nil && spec_okBGP(p)
//@   old otc uint32 = p.BGPPath.BGPPathA.OnlyToCustomer
//@   ensures propagate ==> retPath == p
//@   ensures propagate && !a.sessionAttrs.RouteServerClient ==> p.BGPPath.BGPPathA.NextHop == a.sessionAttrs.LocalIP
//@   ensures propagate && !a.sessionAttrs.RouteServerClient ==> p.BGPPath.ASPath != nil && len(*p.BGPPath.ASPath) >= 1 && len((*p.BGPPath.ASPath)[0].ASNs) >= 1 && (*p.BGPPath.ASPath)[0].ASNs[0] == a.sessionAttrs.LocalASN
//@   ensures propagate && a.sessionAttrs.PeerRoleEnabled && a.sessionAttrs.PeerRoleAdvByPeer && (a.sessionAttrs.PeerRoleRemote == packet.PeerRoleRoleProvider || a.sessionAttrs.PeerRoleRemote == packet.PeerRoleRolePeer || a.sessionAttrs.PeerRoleRemote == packet.PeerRoleRoleRS) ==> otc == 0
//@   ensures propagate && a.sessionAttrs.PeerRoleEnabled && a.sessionAttrs.PeerRoleAdvByPeer && (a.sessionAttrs.PeerRoleRemote == packet.PeerRoleRoleCustomer || a.sessionAttrs.PeerRoleRemote == packet.PeerRoleRolePeer || a.sessionAttrs.PeerRoleRemote == packet.PeerRoleRoleRSClient) ==> p.BGPPath.BGPPathA.OnlyToCustomer == ite(otc != 0, otc, a.sessionAttrs.LocalASN)

// The rules together, as applied to every path offered to the session.
//@ contract (*AdjRIBOut).checkPropagateUpdate
//@   props C09
//@   requires a != nil && pfx != nil && spec_okBGP(p) && a.sessionAttrs.PeerIP != nil
//@   old ebgp bool = p.BGPPath.BGPPathA.EBGP
//@   old redist bool = p.RedistributedFrom != 0
//@   old otc uint32 = p.BGPPath.BGPPathA.OnlyToCustomer
//@   old fromPeer bool = p.Type == route.BGPPathType && a.sessionAttrs.Type == route.BGPPathType && *p.BGPPath.BGPPathA.Source == *a.sessionAttrs.PeerIP
//@   old noAdv bool = spec_hasComm(p, types.WellKnownCommunityNoAdvertise)
//@   old noExp bool = spec_hasComm(p, types.WellKnownCommunityNoExport)
//@   ensures propagate ==> retPath == p
//@   ensures propagate ==> !noAdv && !fromPeer
//@   ensures propagate && !a.sessionAttrs.IBGP ==> !noExp
//@   ensures propagate && a.sessionAttrs.IBGP && !redist && !a.sessionAttrs.RouteReflectorClient ==> ebgp
//@   ensures propagate && !a.sessionAttrs.IBGP && a.sessionAttrs.PeerRoleEnabled && a.sessionAttrs.PeerRoleAdvByPeer && (a.sessionAttrs.PeerRoleRemote == packet.PeerRoleRoleProvider || a.sessionAttrs.PeerRoleRemote == packet.PeerRoleRolePeer || a.sessionAttrs.PeerRoleRemote == packet.PeerRoleRoleRS) ==> otc == 0
//@   ensures propagate && !a.sessionAttrs.IBGP && !a.sessionAttrs.RouteServerClient ==> p.BGPPath.BGPPathA.NextHop == a.sessionAttrs.LocalIP && len(*p.BGPPath.ASPath) >= 1 && len((*p.BGPPath.ASPath)[0].ASNs) >= 1 && (*p.BGPPath.ASPath)[0].ASNs[0] == a.sessionAttrs.LocalASN

// Properties C25 / C26 (see routingtable/zz_contracts_verif.go for what is
// decided). The Adj-RIB-Out's lock is taken after the Loc-RIB's (the Loc-RIB
// calls its clients with its own lock held).
//@ locklevel AdjRIBOut.mu 30
//@ guarded AdjRIBOut.exportFilterChain by mu
//@ guarded AdjRIBOut.exportFilterChainPending by mu

//@ contract (*AdjRIBOut).Dump, (*AdjRIBOut).AddPath, (*AdjRIBOut).AddPathInitialDump, (*AdjRIBOut).RemovePath, (*AdjRIBOut).removePathsForPrefix, (*AdjRIBOut).Print, (*AdjRIBOut).ReplaceFilterChain
//@   props C25 C26
//@   nosafety
//@   acquires 30
//@   locks C25
//@   guards C26

// Called with the write lock held (RefreshRoute: by ReplaceFilterChain, through
// the Loc-RIB's RefreshClient, in the same thread).
//@ contract (*AdjRIBOut).addPath, (*AdjRIBOut).removePath, (*AdjRIBOut).removePathsFromClients, (*AdjRIBOut).removePathFromClients, (*AdjRIBOut).RefreshRoute
//@   props C25 C26
//@   nosafety
//@   requires verif_wheld(&a.mu)
//@   acquires 31
//@   locks C25
//@   guards C26

//@ contract (*AdjRIBOut).Register, (*AdjRIBOut).RegisterWithOptions
//@   props C25
//@   nosafety
//@   acquires 10
//@   locks C25

//@ contract (*AdjRIBOut).Unregister, (*AdjRIBOut).ClientCount, (*AdjRIBOut).EndOfRIB
//@   props C25
//@   nosafety
//@   acquires 31
//@   locks C25

//@ contract (*AdjRIBOut).LPM, (*AdjRIBOut).Get, (*AdjRIBOut).GetLonger
//@   props C25
//@   nosafety
//@   acquires 80
//@   locks C25

// checkPropagateUpdate withdraws what the session holds for the prefix when
// the path must not be propagated on an add-path session: it takes the table
// lock itself (removePathsForPrefix) and must be called without it.
//@ contract (*AdjRIBOut).checkPropagateUpdate
//@   props C25 C26
//@   acquires 30
//@   locks C25
//@   guards C26
