//go:build verif

package routingtable

// Contracts for govc (contract-based deductive verification, see /verif/DESIGN.md).
// Comments only; compiled only with the build tag "verif".

// The public operations of the routing table and of the client manager are
// opaque to their callers (callers are verified against these contracts, not
// against the trie code). An empty contract promises nothing about the result.
//@ contract (*RoutingTable).GetRouteCount
//@ contract (*RoutingTable).AddPath
//@ contract (*RoutingTable).ReplacePath
//@ contract (*RoutingTable).RemovePath
//@ contract (*RoutingTable).RemovePfx
//@ contract (*RoutingTable).LPM
//@ contract (*RoutingTable).Get
//@ contract (*RoutingTable).GetLonger
//@ contract (*RoutingTable).Dump
//@ contract (*ClientManager).Clients
//@ contract (*ClientManager).ClientCount
//@ contract (*ClientManager).GetOptions
//@ contract (*ClientManager).RegisterWithOptions
//@ contract (*ClientManager).Unregister

// Clients of a routing table do not write to the paths handed to them (they copy
// before rewriting; property C13 states this for the BGP clients). This is a
// contract of the interface methods: it is assumed of every implementation, so
// that a caller's verification does not depend on which implementations happen
// to be loaded.
//@ contract RouteTableClient.AddPath, RouteTableClient.AddPathInitialDump, RouteTableClient.RemovePath, RouteTableClient.ReplacePath
//@   props C06 C12 C20
//@   preserves type route.Path, route.BGPPath, route.BGPPathA

// Property C09: the export rules that do not depend on the session's policy.
//@ import "github.com/bio-routing/bio-rd/protocols/bgp/types"
//@ spec
//@ func spec_hasCommunity(p *route.Path, c uint32) bool {
//@ 	if p.BGPPath == nil || p.BGPPath.Communities == nil {
//@ 		return false
//@ 	}
//@ 	cs := *p.BGPPath.Communities
//@ 	return verif_exists(0, len(cs), func(i int) bool { return cs[i] == c })
//@ }
//@ end

//@ contract isDisallowedByCommunity
//@   props C09
//@   requires p != nil && sa != nil
//@   ensures spec_hasCommunity(p, types.WellKnownCommunityNoAdvertise) ==> result
//@   ensures !sa.IBGP && spec_hasCommunity(p, types.WellKnownCommunityNoExport) ==> result
//@   modifies nothing
//@   loop 0 vars rangeindex int
//@   loop 0 invariant forall(j, 0, rangeindex+1, (*p.BGPPath.Communities)[j] != types.WellKnownCommunityNoAdvertise && (sa.IBGP || (*p.BGPPath.Communities)[j] != types.WellKnownCommunityNoExport))

//@ contract isOwnPath
//@   props C09
//@   requires p != nil && sa != nil
//@   requires p.Type == route.BGPPathType ==> p.BGPPath != nil && p.BGPPath.BGPPathA != nil && p.BGPPath.BGPPathA.Source != nil && sa.PeerIP != nil
//@   ensures p.Type == route.BGPPathType && sa.Type == route.BGPPathType && *p.BGPPath.BGPPathA.Source == *sa.PeerIP ==> result
//@   modifies nothing

// A route is not sent with NO_ADVERTISE, not with NO_EXPORT to an eBGP peer, and
// not back to the peer it was learned from.
//@ contract ShouldPropagateUpdate
//@   props C09
//@   requires p != nil && sa != nil
//@   requires p.Type == route.BGPPathType ==> p.BGPPath != nil && p.BGPPath.BGPPathA != nil && p.BGPPath.BGPPathA.Source != nil && sa.PeerIP != nil
//@   ensures result ==> !spec_hasCommunity(p, types.WellKnownCommunityNoAdvertise)
//@   ensures result && !sa.IBGP ==> !spec_hasCommunity(p, types.WellKnownCommunityNoExport)
//@   ensures result && p.Type == route.BGPPathType && sa.Type == route.BGPPathType ==> *p.BGPPath.BGPPathA.Source != *sa.PeerIP
//@   modifies nothing

// Properties C25 / C26, the part a sequential contract decides (see
// /verif/DESIGN.md): every operation leaves each lock as it found it, never
// locks a mutex it holds, never unlocks one it does not hold, and takes locks
// in the order of their levels (a function with `acquires n` is called with no
// lock of level n or above held and takes only locks of level n or above); the
// guarded fields are touched only with their lock held.
// The locks of the routing table and of the client manager are leaves: nothing
// else is locked, and no client is called, while they are held.
//@ locklevel RoutingTable.mu 80
//@ locklevel ClientManager.mu 90
//@ guarded RoutingTable.root by mu
//@ guarded ClientManager.clients by mu
//@ guarded ClientManager.endOfLife by mu

//@ contract (*RoutingTable).AddPath, (*RoutingTable).ReplacePath, (*RoutingTable).RemovePath, (*RoutingTable).RemovePfx, (*RoutingTable).LPM, (*RoutingTable).Get, (*RoutingTable).GetLonger, (*RoutingTable).Dump
//@   props C25 C26
//@   nosafety
//@   acquires 80
//@   locks C25
//@   guards C26

//@ contract (*ClientManager).ClientCount, (*ClientManager).GetOptions, (*ClientManager).Unregister, (*ClientManager).Clients, (*ClientManager).Dispose
//@   props C25 C26
//@   nosafety
//@   acquires 90
//@   locks C25
//@   guards C26

// The master is told about the new client after the lock is released; the
// master is a table, whose own lock is the lowest it takes.
//@ contract ClientManagerMaster.UpdateNewClient
//@   props C25
//@   acquires 10
//@ contract (*ClientManager).RegisterWithOptions
//@   props C25 C26
//@   nosafety
//@   acquires 10
//@   locks C25
//@   guards C26

// Called with the write lock held.
//@ contract (*ClientManager)._unregister
//@   props C25 C26
//@   nosafety
//@   requires verif_wheld(&c.mu)
//@   acquires 91
//@   locks C25
//@   guards C26

// The trie below the table lock: only the locks of the routes are taken.
//@ contract (*RoutingTable).removePaths, (*RoutingTable).removePath, (*RoutingTable).addPath
//@   props C25 C26
//@   nosafety
//@   requires verif_wheld(&rt.mu)
//@   acquires 81
//@   locks C25
//@   guards C26

//@ contract (*node).addPath, (*node).removePath
//@   props C25
//@   nosafety
//@   nilrecv
//@   acquires 95
//@   locks C25
