//go:build verif

package routingtable

// Contracts for govc (contract-based deductive verification, see /verif/DESIGN.md).
// Comments only; compiled only with the build tag "verif".

// The public operations of the routing table and of the client manager are
// opaque to their callers (callers are verified against these contracts, not
// against the trie code). An empty contract promises nothing about the result.
//@ contract (*RoutingTable).GetRouteCount
//@ contract (*RoutingTable).AddPath
//@ contract (*RoutingTable).ReplacePath
//@ contract (*RoutingTable).RemovePath
//@ contract (*RoutingTable).RemovePfx
//@ contract (*RoutingTable).LPM
//@ contract (*RoutingTable).Get
//@ contract (*RoutingTable).GetLonger
//@ contract (*RoutingTable).Dump
//@ contract (*ClientManager).Clients
//@ contract (*ClientManager).ClientCount
//@ contract (*ClientManager).GetOptions
//@ contract (*ClientManager).RegisterWithOptions
//@ contract (*ClientManager).Unregister
