//go:build verif

package routingtable

// Contracts for govc (contract-based deductive verification, see /verif/DESIGN.md).
// Comments only; compiled only with the build tag "verif".

// The public operations of the routing table and of the client manager are
// opaque to their callers (callers are verified against these contracts, not
// against the trie code). An empty contract promises nothing about the result.
//@ contract (*RoutingTable).GetRouteCount
//@ contract (*RoutingTable).AddPath
//@ contract (*RoutingTable).ReplacePath
//@ contract (*RoutingTable).RemovePath
//@ contract (*RoutingTable).RemovePfx
//@ contract (*RoutingTable).LPM
//@ contract (*RoutingTable).Get
//@ contract (*RoutingTable).GetLonger
//@ contract (*RoutingTable).Dump
//@ contract (*ClientManager).Clients
//@ contract (*ClientManager).ClientCount
//@ contract (*ClientManager).GetOptions
//@ contract (*ClientManager).RegisterWithOptions
//@ contract (*ClientManager).Unregister

// Clients of a routing table do not write to the paths handed to them (they copy
// before rewriting; property C13 states this for the BGP clients). This is a
// contract of the interface methods: it is assumed of every implementation, so
// that a caller's verification does not depend on which implementations happen
// to be loaded.
//@ contract RouteTableClient.AddPath, RouteTableClient.AddPathInitialDump, RouteTableClient.RemovePath, RouteTableClient.ReplacePath
//@   props C06 C12 C20
//@   preserves type route.Path, route.BGPPath, route.BGPPathA
