//go:build verif

package route

// Contracts for govc (contract-based deductive verification, see /verif/DESIGN.md).
// This file contains comments only; it is compiled only with the build tag
// "verif" and then compiles to nothing.

//@ spec
//@ // --- well-formedness of a BGP path as far as the decision process reads it ---
//@ func spec_okBGP(b *BGPPath) bool {
//@ 	return b != nil && b.BGPPathA != nil && b.BGPPathA.Source != nil && b.BGPPathA.NextHop != nil
//@ }
//@ // RFC 4456 section 9: ORIGINATOR_ID replaces the BGP identifier when present
//@ func spec_id(b *BGPPath) uint32 {
//@ 	if b.BGPPathA.OriginatorID != 0 {
//@ 		return b.BGPPathA.OriginatorID
//@ 	}
//@ 	return b.BGPPathA.BGPIdentifier
//@ }
//@ // RFC 4456 section 9: an absent CLUSTER_LIST has length 0
//@ func spec_cl(b *BGPPath) int {
//@ 	if b.ClusterList == nil {
//@ 		return 0
//@ 	}
//@ 	return len(*b.ClusterList)
//@ }
//@ func spec_tieLP(b, c *BGPPath) bool { return b.BGPPathA.LocalPref == c.BGPPathA.LocalPref }
//@ func spec_tieASP(b, c *BGPPath) bool { return spec_tieLP(b, c) && b.ASPathLen == c.ASPathLen }
//@ func spec_tieOrigin(b, c *BGPPath) bool { return spec_tieASP(b, c) && b.BGPPathA.Origin == c.BGPPathA.Origin }
//@ func spec_tieMED(b, c *BGPPath) bool { return spec_tieOrigin(b, c) && b.BGPPathA.MED == c.BGPPathA.MED }
//@ func spec_tieEBGP(b, c *BGPPath) bool { return spec_tieMED(b, c) && b.BGPPathA.EBGP == c.BGPPathA.EBGP }
//@ func spec_tieID(b, c *BGPPath) bool { return spec_tieEBGP(b, c) && spec_id(b) == spec_id(c) }
//@ func spec_tieCL(b, c *BGPPath) bool { return spec_tieID(b, c) && spec_cl(b) == spec_cl(c) }
//@ func spec_tieSrc(b, c *BGPPath) bool {
//@ 	return spec_tieCL(b, c) && b.BGPPathA.Source.Compare(c.BGPPathA.Source) == 0
//@ }
//@ func spec_sgn(x int8) int8 {
//@ 	if x > 0 {
//@ 		return 1
//@ 	}
//@ 	if x < 0 {
//@ 		return -1
//@ 	}
//@ 	return 0
//@ }
//@ end

// Property C03: one clause per step of RFC 4271 9.1.2.2 / RFC 4456 9, taken from
// the property statement. b.Select(c) > 0 means b is preferred.
//@ contract (*BGPPath).Select
//@   props C03 C02
//@   requires spec_okBGP(b) && spec_okBGP(c)
//@   ensures b.BGPPathA.LocalPref > c.BGPPathA.LocalPref ==> result > 0
//@   ensures b.BGPPathA.LocalPref < c.BGPPathA.LocalPref ==> result < 0
//@   ensures spec_tieLP(b, c) && b.ASPathLen < c.ASPathLen ==> result > 0
//@   ensures spec_tieLP(b, c) && b.ASPathLen > c.ASPathLen ==> result < 0
//@   ensures spec_tieASP(b, c) && b.BGPPathA.Origin < c.BGPPathA.Origin ==> result > 0
//@   ensures spec_tieASP(b, c) && b.BGPPathA.Origin > c.BGPPathA.Origin ==> result < 0
//@   ensures spec_tieOrigin(b, c) && b.BGPPathA.MED < c.BGPPathA.MED ==> result > 0
//@   ensures spec_tieOrigin(b, c) && b.BGPPathA.MED > c.BGPPathA.MED ==> result < 0
//@   ensures spec_tieMED(b, c) && b.BGPPathA.EBGP && !c.BGPPathA.EBGP ==> result > 0
//@   ensures spec_tieMED(b, c) && !b.BGPPathA.EBGP && c.BGPPathA.EBGP ==> result < 0
//@   ensures spec_tieEBGP(b, c) && spec_id(b) < spec_id(c) ==> result > 0
//@   ensures spec_tieEBGP(b, c) && spec_id(b) > spec_id(c) ==> result < 0
//@   ensures spec_tieID(b, c) && spec_cl(b) < spec_cl(c) ==> result > 0
//@   ensures spec_tieID(b, c) && spec_cl(b) > spec_cl(c) ==> result < 0
//@   ensures spec_tieCL(b, c) && b.BGPPathA.Source.Compare(c.BGPPathA.Source) == -1 ==> result > 0
//@   ensures spec_tieCL(b, c) && b.BGPPathA.Source.Compare(c.BGPPathA.Source) == 1 ==> result < 0
//@   ensures result == 1 || result == 0 || result == -1
//@   modifies nothing

// Property C02: the preference relation implemented by the real Select is a total
// preorder; the lemmas run the real function body two or three times.
//@ lemma selectAntisym (a *BGPPath, b *BGPPath)
//@   props C02
//@   inline
//@   requires spec_okBGP(a) && spec_okBGP(b)
//@   ensures spec_sgn(a.Select(b)) == -spec_sgn(b.Select(a))

//@ lemma selectTrans (a *BGPPath, b *BGPPath, c *BGPPath)
//@   props C02
//@   inline
//@   requires spec_okBGP(a) && spec_okBGP(b) && spec_okBGP(c)
//@   ensures a.Select(b) >= 0 && b.Select(c) >= 0 ==> a.Select(c) >= 0
//@   ensures a.Select(b) > 0 && b.Select(c) >= 0 ==> a.Select(c) > 0
//@   ensures a.Select(b) >= 0 && b.Select(c) > 0 ==> a.Select(c) > 0

//@ lemma selectCongr (a *BGPPath, b *BGPPath, c *BGPPath)
//@   props C02
//@   inline
//@   requires spec_okBGP(a) && spec_okBGP(b) && spec_okBGP(c)
//@   ensures a.Select(b) == 0 ==> a.Select(c) == b.Select(c)

// ties are only reported between paths the decision process cannot distinguish
//@ lemma selectTieIndistinct (a *BGPPath, b *BGPPath)
//@   props C02
//@   inline
//@   requires spec_okBGP(a) && spec_okBGP(b)
//@   ensures a.Select(b) == 0 ==> spec_tieSrc(a, b)

// ECMP is an equivalence and ECMP classes are convex in the preference order, so
// "the longest sorted prefix of pairwise-adjacent ECMP paths" is the set of all
// paths that are ECMP-equal to the best path, independent of arrival order.
//@ lemma ecmpEquiv (a *BGPPath, b *BGPPath, c *BGPPath)
//@   props C02
//@   inline
//@   requires spec_okBGP(a) && spec_okBGP(b) && spec_okBGP(c)
//@   ensures a.ECMP(a)
//@   ensures a.ECMP(b) == b.ECMP(a)
//@   ensures a.ECMP(b) && b.ECMP(c) ==> a.ECMP(c)

//@ lemma ecmpConvex (a *BGPPath, b *BGPPath, c *BGPPath)
//@   props C02
//@   inline
//@   requires spec_okBGP(a) && spec_okBGP(b) && spec_okBGP(c)
//@   ensures a.Select(b) >= 0 && b.Select(c) >= 0 && a.ECMP(c) ==> a.ECMP(b) && b.ECMP(c)

// The same total-preorder lemmas for the other path types and for the
// type-dispatching (*Path).Select.
//@ spec
//@ func spec_okFIB(s *FIBPath) bool { return s != nil && s.NextHop != nil && s.Src != nil }
//@ func spec_okStatic(s *StaticPath) bool { return s != nil && s.NextHop != nil }
//@ func spec_okPath(p *Path) bool {
//@ 	if p == nil {
//@ 		return true
//@ 	}
//@ 	switch p.Type {
//@ 	case BGPPathType:
//@ 		return spec_okBGP(p.BGPPath)
//@ 	case StaticPathType:
//@ 		return spec_okStatic(p.StaticPath)
//@ 	case FIBPathType:
//@ 		return spec_okFIB(p.FIBPath)
//@ 	}
//@ 	return true
//@ }
//@ end

//@ lemma fibSelectOrder (a *FIBPath, b *FIBPath, c *FIBPath)
//@   props C02
//@   inline
//@   requires spec_okFIB(a) && spec_okFIB(b) && spec_okFIB(c)
//@   ensures spec_sgn(a.Select(b)) == -spec_sgn(b.Select(a))
//@   ensures a.Select(b) >= 0 && b.Select(c) >= 0 ==> a.Select(c) >= 0
//@   ensures a.Select(b) > 0 && b.Select(c) >= 0 ==> a.Select(c) > 0
//@   ensures a.Select(b) >= 0 && b.Select(c) > 0 ==> a.Select(c) > 0
//@   ensures a.Select(b) == 0 ==> a.Select(c) == b.Select(c)

//@ lemma staticSelectOrder (a *StaticPath, b *StaticPath, c *StaticPath)
//@   props C02
//@   inline
//@   requires spec_okStatic(a) && spec_okStatic(b) && spec_okStatic(c)
//@   ensures spec_sgn(a.Select(b)) == -spec_sgn(b.Select(a))
//@   ensures a.Select(b) >= 0 && b.Select(c) >= 0 ==> a.Select(c) >= 0
//@   ensures a.Select(b) > 0 && b.Select(c) >= 0 ==> a.Select(c) > 0
//@   ensures a.Select(b) >= 0 && b.Select(c) > 0 ==> a.Select(c) > 0
//@   ensures a.Select(b) == 0 ==> a.Select(c) == b.Select(c)

//@ lemma pathSelectOrder (a *Path, b *Path, c *Path)
//@   props C02
//@   inline
//@   requires spec_okPath(a) && spec_okPath(b) && spec_okPath(c)
//@   ensures spec_sgn(a.Select(b)) == -spec_sgn(b.Select(a))
//@   ensures a.Select(b) >= 0 && b.Select(c) >= 0 ==> a.Select(c) >= 0
//@   ensures a.Select(b) > 0 && b.Select(c) >= 0 ==> a.Select(c) > 0
//@   ensures a.Select(b) >= 0 && b.Select(c) > 0 ==> a.Select(c) > 0
//@   ensures a.Select(b) == 0 ==> a.Select(c) == b.Select(c)

// Property C11: the attribute hash that keys path identifiers. String formatting
// and SHA-256 are outside the subset; the hash is taken to be a function of the
// path object (it does not change while the object is not written).
//@ contract (*BGPPath).ComputeHash
//@   props C11
//@   trusted formatting and SHA-256 are not modelled: the hash is an uninterpreted function of the path object
//@   requires b != nil
//@   ensures result == verif_uf_str("ComputeHash", b)
//@   modifies nothing

// Properties C09 / C17: prepending the local ASN. The first segment is an
// AS_SEQUENCE that starts with the prepended ASN, and no segment grows beyond
// the 255 ASNs its one-octet length field can announce.
//@ spec
//@ func spec_segsFit(b *BGPPath) bool {
//@ 	return b.ASPath != nil && verif_forall(0, len(*b.ASPath), func(k int) bool { return len((*b.ASPath)[k].ASNs) <= 255 })
//@ }
//@ end

//@ contract (*BGPPath).insertNewASSequence
//@   props C09 C17
//@   requires b != nil && b.ASPath != nil
//@   old n int = len(*b.ASPath)
//@   old fit bool = spec_segsFit(b)
//@   ensures b.ASPath != nil && len(*b.ASPath) == n+1 && (*b.ASPath)[0].Type == types.ASSequence && len((*b.ASPath)[0].ASNs) == 0
//@   ensures fit ==> spec_segsFit(b)
//@   modifies b

//@ contract (*BGPPath).Prepend
//@   props C09 C17
//@   requires b != nil && b.ASPath != nil
//@   old fit bool = spec_segsFit(b)
//@   ensures b.ASPath != nil
//@   ensures[C09] times >= 1 ==> len(*b.ASPath) >= 1 && (*b.ASPath)[0].Type != types.ASSet && len((*b.ASPath)[0].ASNs) >= 1 && (*b.ASPath)[0].ASNs[0] == asn
//@   ensures[C17] fit ==> spec_segsFit(b)
//@   loop 0 vars i int
//@   loop 0 invariant b.ASPath != nil && len(*b.ASPath) >= 1 && (*b.ASPath)[0].Type != types.ASSet && i >= 0
//@   loop 0 invariant i >= 1 ==> len((*b.ASPath)[0].ASNs) >= 1 && (*b.ASPath)[0].ASNs[0] == asn
//@   loop 0 invariant fit ==> spec_segsFit(b)
