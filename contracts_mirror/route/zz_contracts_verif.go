//go:build verif

package route

// Contracts for govc (contract-based deductive verification, see /verif/DESIGN.md).
// This file contains comments only; it is compiled only with the build tag
// "verif" and then compiles to nothing.

//@ spec
//@ // --- well-formedness of a BGP path as far as the decision process reads it ---
//@ func spec_okBGP(b *BGPPath) bool {
//@ 	return b != nil && b.BGPPathA != nil && b.BGPPathA.Source != nil && b.BGPPathA.NextHop != nil
//@ }
//@ // RFC 4456 section 9: ORIGINATOR_ID replaces the BGP identifier when present
//@ func spec_id(b *BGPPath) uint32 {
//@ 	if b.BGPPathA.OriginatorID != 0 {
//@ 		return b.BGPPathA.OriginatorID
//@ 	}
//@ 	return b.BGPPathA.BGPIdentifier
//@ }
//@ // RFC 4456 section 9: an absent CLUSTER_LIST has length 0
//@ func spec_cl(b *BGPPath) int {
//@ 	if b.ClusterList == nil {
//@ 		return 0
//@ 	}
//@ 	return len(*b.ClusterList)
//@ }
//@ func spec_tieLP(b, c *BGPPath) bool { return b.BGPPathA.LocalPref == c.BGPPathA.LocalPref }
//@ func spec_tieASP(b, c *BGPPath) bool { return spec_tieLP(b, c) && b.ASPathLen == c.ASPathLen }
//@ func spec_tieOrigin(b, c *BGPPath) bool { return spec_tieASP(b, c) && b.BGPPathA.Origin == c.BGPPathA.Origin }
//@ func spec_tieMED(b, c *BGPPath) bool { return spec_tieOrigin(b, c) && b.BGPPathA.MED == c.BGPPathA.MED }
//@ func spec_tieEBGP(b, c *BGPPath) bool { return spec_tieMED(b, c) && b.BGPPathA.EBGP == c.BGPPathA.EBGP }
//@ func spec_tieID(b, c *BGPPath) bool { return spec_tieEBGP(b, c) && spec_id(b) == spec_id(c) }
//@ func spec_tieCL(b, c *BGPPath) bool { return spec_tieID(b, c) && spec_cl(b) == spec_cl(c) }
//@ func spec_tieSrc(b, c *BGPPath) bool {
//@ 	return spec_tieCL(b, c) && b.BGPPathA.Source.Compare(c.BGPPathA.Source) == 0
//@ }
//@ func spec_sgn(x int8) int8 {
//@ 	if x > 0 {
//@ 		return 1
//@ 	}
//@ 	if x < 0 {
//@ 		return -1
//@ 	}
//@ 	return 0
//@ }
//@ end

// Property C03: one clause per step of RFC 4271 9.1.2.2 / RFC 4456 9, taken from
// the property statement. b.Select(c) > 0 means b is preferred.
//@ contract (*BGPPath).Select
//@   props C03 C02
//@   requires spec_okBGP(b) && spec_okBGP(c)
//@   ensures b.BGPPathA.LocalPref > c.BGPPathA.LocalPref ==> result > 0
//@   ensures b.BGPPathA.LocalPref < c.BGPPathA.LocalPref ==> result < 0
//@   ensures spec_tieLP(b, c) && b.ASPathLen < c.ASPathLen ==> result > 0
//@   ensures spec_tieLP(b, c) && b.ASPathLen > c.ASPathLen ==> result < 0
//@   ensures spec_tieASP(b, c) && b.BGPPathA.Origin < c.BGPPathA.Origin ==> result > 0
//@   ensures spec_tieASP(b, c) && b.BGPPathA.Origin > c.BGPPathA.Origin ==> result < 0
//@   ensures spec_tieOrigin(b, c) && b.BGPPathA.MED < c.BGPPathA.MED ==> result > 0
//@   ensures spec_tieOrigin(b, c) && b.BGPPathA.MED > c.BGPPathA.MED ==> result < 0
//@   ensures spec_tieMED(b, c) && b.BGPPathA.EBGP && !c.BGPPathA.EBGP ==> result > 0
//@   ensures spec_tieMED(b, c) && !b.BGPPathA.EBGP && c.BGPPathA.EBGP ==> result < 0
//@   ensures spec_tieEBGP(b, c) && spec_id(b) < spec_id(c) ==> result > 0
//@   ensures spec_tieEBGP(b, c) && spec_id(b) > spec_id(c) ==> result < 0
//@   ensures spec_tieID(b, c) && spec_cl(b) < spec_cl(c) ==> result > 0
//@   ensures spec_tieID(b, c) && spec_cl(b) > spec_cl(c) ==> result < 0
//@   ensures spec_tieCL(b, c) && b.BGPPathA.Source.Compare(c.BGPPathA.Source) == -1 ==> result > 0
//@   ensures spec_tieCL(b, c) && b.BGPPathA.Source.Compare(c.BGPPathA.Source) == 1 ==> result < 0
//@   ensures result == 1 || result == 0 || result == -1
//@   modifies nothing

// Property C02: the preference relation implemented by the real Select is a total
// preorder; the lemmas run the real function body two or three times.
//@ lemma selectAntisym (a *BGPPath, b *BGPPath)
//@   props C02
//@   inline
//@   requires spec_okBGP(a) && spec_okBGP(b)
//@   ensures spec_sgn(a.Select(b)) == -spec_sgn(b.Select(a))

//@ lemma selectTrans (a *BGPPath, b *BGPPath, c *BGPPath)
//@   props C02
//@   inline
//@   requires spec_okBGP(a) && spec_okBGP(b) && spec_okBGP(c)
//@   ensures a.Select(b) >= 0 && b.Select(c) >= 0 ==> a.Select(c) >= 0
//@   ensures a.Select(b) > 0 && b.Select(c) >= 0 ==> a.Select(c) > 0
//@   ensures a.Select(b) >= 0 && b.Select(c) > 0 ==> a.Select(c) > 0

//@ lemma selectCongr (a *BGPPath, b *BGPPath, c *BGPPath)
//@   props C02
//@   inline
//@   requires spec_okBGP(a) && spec_okBGP(b) && spec_okBGP(c)
//@   ensures a.Select(b) == 0 ==> a.Select(c) == b.Select(c)

// ties are only reported between paths the decision process cannot distinguish
//@ lemma selectTieIndistinct (a *BGPPath, b *BGPPath)
//@   props C02
//@   inline
//@   requires spec_okBGP(a) && spec_okBGP(b)
//@   ensures a.Select(b) == 0 ==> spec_tieSrc(a, b)

// ECMP is an equivalence and ECMP classes are convex in the preference order, so
// "the longest sorted prefix of pairwise-adjacent ECMP paths" is the set of all
// paths that are ECMP-equal to the best path, independent of arrival order.
//@ lemma ecmpEquiv (a *BGPPath, b *BGPPath, c *BGPPath)
//@   props C02
//@   inline
//@   requires spec_okBGP(a) && spec_okBGP(b) && spec_okBGP(c)
//@   ensures a.ECMP(a)
//@   ensures a.ECMP(b) == b.ECMP(a)
//@   ensures a.ECMP(b) && b.ECMP(c) ==> a.ECMP(c)

//@ lemma ecmpConvex (a *BGPPath, b *BGPPath, c *BGPPath)
//@   props C02
//@   inline
//@   requires spec_okBGP(a) && spec_okBGP(b) && spec_okBGP(c)
//@   ensures a.Select(b) >= 0 && b.Select(c) >= 0 && a.ECMP(c) ==> a.ECMP(b) && b.ECMP(c)

// The same total-preorder lemmas for the other path types and for the
// type-dispatching (*Path).Select.
//@ spec
//@ func spec_okFIB(s *FIBPath) bool { return s != nil && s.NextHop != nil && s.Src != nil }
//@ func spec_okStatic(s *StaticPath) bool { return s != nil && s.NextHop != nil }
//@ func spec_okPath(p *Path) bool {
//@ 	if p == nil {
//@ 		return true
//@ 	}
//@ 	switch p.Type {
//@ 	case BGPPathType:
//@ 		return spec_okBGP(p.BGPPath)
//@ 	case StaticPathType:
//@ 		return spec_okStatic(p.StaticPath)
//@ 	case FIBPathType:
//@ 		return spec_okFIB(p.FIBPath)
//@ 	}
//@ 	return true
//@ }
//@ end

//@ lemma fibSelectOrder (a *FIBPath, b *FIBPath, c *FIBPath)
//@   props C02
//@   inline
//@   requires spec_okFIB(a) && spec_okFIB(b) && spec_okFIB(c)
//@   ensures spec_sgn(a.Select(b)) == -spec_sgn(b.Select(a))
//@   ensures a.Select(b) >= 0 && b.Select(c) >= 0 ==> a.Select(c) >= 0
//@   ensures a.Select(b) > 0 && b.Select(c) >= 0 ==> a.Select(c) > 0
//@   ensures a.Select(b) >= 0 && b.Select(c) > 0 ==> a.Select(c) > 0
//@   ensures a.Select(b) == 0 ==> a.Select(c) == b.Select(c)

//@ lemma staticSelectOrder (a *StaticPath, b *StaticPath, c *StaticPath)
//@   props C02
//@   inline
//@   requires spec_okStatic(a) && spec_okStatic(b) && spec_okStatic(c)
//@   ensures spec_sgn(a.Select(b)) == -spec_sgn(b.Select(a))
//@   ensures a.Select(b) >= 0 && b.Select(c) >= 0 ==> a.Select(c) >= 0
//@   ensures a.Select(b) > 0 && b.Select(c) >= 0 ==> a.Select(c) > 0
//@   ensures a.Select(b) >= 0 && b.Select(c) > 0 ==> a.Select(c) > 0
//@   ensures a.Select(b) == 0 ==> a.Select(c) == b.Select(c)

//@ lemma pathSelectOrder (a *Path, b *Path, c *Path)
//@   props C02
//@   inline
//@   requires spec_okPath(a) && spec_okPath(b) && spec_okPath(c)
//@   ensures spec_sgn(a.Select(b)) == -spec_sgn(b.Select(a))
//@   ensures a.Select(b) >= 0 && b.Select(c) >= 0 ==> a.Select(c) >= 0
//@   ensures a.Select(b) > 0 && b.Select(c) >= 0 ==> a.Select(c) > 0
//@   ensures a.Select(b) >= 0 && b.Select(c) > 0 ==> a.Select(c) > 0
//@   ensures a.Select(b) == 0 ==> a.Select(c) == b.Select(c)

// Property C11: the attribute hash that keys path identifiers. String formatting
// and SHA-256 are outside the subset; the hash is taken to be a function of the
// path object (it does not change while the object is not written).
//@ contract (*BGPPath).ComputeHash
//@   props C11
//@   trusted formatting and SHA-256 are not modelled: the hash is an uninterpreted function of the path object
//@   requires b != nil
//@   ensures result == verif_uf_str("ComputeHash", b)
//@   modifies nothing

// Properties C09 / C17: prepending the local ASN. The first segment is an
// AS_SEQUENCE that starts with the prepended ASN, and no segment grows beyond
// the 255 ASNs its one-octet length field can announce.
//@ spec
//@ func spec_segsFit(b *BGPPath) bool {
//@ 	return b.ASPath != nil && verif_forall(0, len(*b.ASPath), func(k int) bool { return len((*b.ASPath)[k].ASNs) <= 255 })
//@ }
//@ end

//@ contract (*BGPPath).insertNewASSequence
//@   props C09 C17 C13
//@   requires b != nil && b.ASPath != nil
//@   old n int = len(*b.ASPath)
//@   old fit bool = spec_segsFit(b)
//@   ensures b.ASPath != nil && len(*b.ASPath) == n+1 && (*b.ASPath)[0].Type == types.ASSequence && len((*b.ASPath)[0].ASNs) == 0
//@   ensures fit ==> spec_segsFit(b)
//@   ensures verif_fresh(b.ASPath) && verif_freshslice(*b.ASPath)
//@   modifies b

// Prepending writes the path object and its segment list only (a segment's
// list of ASNs is replaced by a new one, never written in place: it may be
// shared with the path this one was copied from).
//@ contract (*BGPPath).Prepend
//@   props C09 C17 C13
//@   requires b != nil && b.ASPath != nil
//@   old fit bool = spec_segsFit(b)
//@   old box0 *types.ASPath = b.ASPath
//@   old arr0 any = verif_arrayof(*b.ASPath)
//@   old a0 *BGPPathA = b.BGPPathA
//@   modifies b, verif_arrayof(*b.ASPath)
//@   ensures b.ASPath != nil && b.BGPPathA == a0
//@   ensures[C13] (b.ASPath == box0 && verif_arrayof(*b.ASPath) == arr0) || (verif_fresh(b.ASPath) && verif_freshslice(*b.ASPath))
//@   ensures[C09] times >= 1 ==> len(*b.ASPath) >= 1 && (*b.ASPath)[0].Type != types.ASSet && len((*b.ASPath)[0].ASNs) >= 1 && (*b.ASPath)[0].ASNs[0] == asn
//@   ensures[C17] fit ==> spec_segsFit(b)
//@   loop 0 vars i int
//@   loop 0 invariant b.ASPath != nil && len(*b.ASPath) >= 1 && (*b.ASPath)[0].Type != types.ASSet && i >= 0
//@   loop 0 invariant i >= 1 ==> len((*b.ASPath)[0].ASNs) >= 1 && (*b.ASPath)[0].ASNs[0] == asn
//@   loop 0 invariant fit ==> spec_segsFit(b)
//@   loop 0 invariant b.BGPPathA == a0
//@   loop 0 invariant (b.ASPath == box0 && verif_arrayof(*b.ASPath) == arr0) || (verif_fresh(b.ASPath) && verif_freshslice(*b.ASPath))

// Property C34: converting a route to its API representation and back keeps
// the prefix, the path type and every BGP attribute the API schema has a field
// for; a hidden path is never reported as visible.
//@ import netapi "github.com/bio-routing/bio-rd/net/api"
//@ spec
//@ func spec_sameIP(a *netapi.IP, ip *bnet.IP) bool {
//@ 	return a != nil && a.Higher == ip.Higher() && a.Lower == ip.Lower() && (a.Version == netapi.IP_IPv4) == ip.IsIPv4()
//@ }
//@ func spec_sameLC(a *api.LargeCommunity, c types.LargeCommunity) bool {
//@ 	return a != nil && a.GlobalAdministrator == c.GlobalAdministrator && a.DataPart1 == c.DataPart1 && a.DataPart2 == c.DataPart2
//@ }
//@ func spec_sameUA(a *api.UnknownPathAttribute, u types.UnknownPathAttribute) bool {
//@ 	return a != nil && a.Optional == u.Optional && a.Transitive == u.Transitive && a.Partial == u.Partial && a.TypeCode == uint32(u.TypeCode) && verif_sameelems(a.Value, u.Value)
//@ }
//@ func spec_sameSeg(a *api.ASPathSegment, s types.ASPathSegment) bool {
//@ 	return a != nil && a.AsSequence == (s.Type == types.ASSequence) && verif_sameelems(a.Asns, s.ASNs)
//@ }
//@ // a is the API form of the BGP path b: every attribute the API has a field for
//@ func spec_bgpConv(a *api.BGPPath, b *BGPPath) bool {
//@ 	if (a == nil) != (b == nil) {
//@ 		return false
//@ 	}
//@ 	if b == nil {
//@ 		return true
//@ 	}
//@ 	if a.PathIdentifier != b.PathIdentifier || a.BmpPostPolicy != b.BMPPostPolicy {
//@ 		return false
//@ 	}
//@ 	if b.BGPPathA != nil {
//@ 		x := b.BGPPathA
//@ 		if a.LocalPref != x.LocalPref || a.Origin != uint32(x.Origin) || a.Med != x.MED || a.Ebgp != x.EBGP || a.BgpIdentifier != x.BGPIdentifier || a.OriginatorId != x.OriginatorID || a.OnlyToCustomer != x.OnlyToCustomer {
//@ 			return false
//@ 		}
//@ 		if x.NextHop != nil && !spec_sameIP(a.NextHop, x.NextHop) {
//@ 			return false
//@ 		}
//@ 		if x.Source != nil && !spec_sameIP(a.Source, x.Source) {
//@ 			return false
//@ 		}
//@ 	}
//@ 	if b.ASPath != nil && !(len(a.AsPath) == len(*b.ASPath) && verif_forall(0, len(*b.ASPath), func(k int) bool { return spec_sameSeg(a.AsPath[k], (*b.ASPath)[k]) })) {
//@ 		return false
//@ 	}
//@ 	if b.ClusterList != nil && !verif_sameelems(a.ClusterList, *b.ClusterList) {
//@ 		return false
//@ 	}
//@ 	if b.Communities != nil && !verif_sameelems(a.Communities, *b.Communities) {
//@ 		return false
//@ 	}
//@ 	if b.LargeCommunities != nil && !(len(a.LargeCommunities) == len(*b.LargeCommunities) && verif_forall(0, len(*b.LargeCommunities), func(k int) bool { return spec_sameLC(a.LargeCommunities[k], (*b.LargeCommunities)[k]) })) {
//@ 		return false
//@ 	}
//@ 	return len(a.UnknownAttributes) == len(b.UnknownAttributes) && verif_forall(0, len(b.UnknownAttributes), func(k int) bool { return spec_sameUA(a.UnknownAttributes[k], b.UnknownAttributes[k]) })
//@ }
//@ // pb can be converted (no nil members, values in range)
//@ func spec_okAPIBGP(pb *api.BGPPath) bool {
//@ 	return pb != nil && pb.NextHop != nil && pb.Source != nil &&
//@ 		verif_forall(0, len(pb.AsPath), func(k int) bool { return pb.AsPath[k] != nil }) &&
//@ 		verif_forall(0, len(pb.LargeCommunities), func(k int) bool { return pb.LargeCommunities[k] != nil }) &&
//@ 		verif_forall(0, len(pb.UnknownAttributes), func(k int) bool { return pb.UnknownAttributes[k] != nil && pb.UnknownAttributes[k].TypeCode <= 255 })
//@ }
//@ // b is the BGP path the API form pb stands for
//@ func spec_bgpFrom(pb *api.BGPPath, b *BGPPath) bool {
//@ 	if b == nil || b.BGPPathA == nil || b.PathIdentifier != pb.PathIdentifier || b.BMPPostPolicy != pb.BmpPostPolicy {
//@ 		return false
//@ 	}
//@ 	x := b.BGPPathA
//@ 	if x.LocalPref != pb.LocalPref || uint32(x.Origin) != pb.Origin&255 || x.MED != pb.Med || x.EBGP != pb.Ebgp || x.BGPIdentifier != pb.BgpIdentifier || x.OriginatorID != pb.OriginatorId || x.OnlyToCustomer != pb.OnlyToCustomer {
//@ 		return false
//@ 	}
//@ 	if x.NextHop == nil || !spec_sameIP(pb.NextHop, x.NextHop) || x.Source == nil || !spec_sameIP(pb.Source, x.Source) {
//@ 		return false
//@ 	}
//@ 	if b.ASPath == nil || len(*b.ASPath) != len(pb.AsPath) || !verif_forall(0, len(pb.AsPath), func(k int) bool {
//@ 		return ((*b.ASPath)[k].Type == types.ASSequence || (*b.ASPath)[k].Type == types.ASSet) && spec_sameSeg(pb.AsPath[k], (*b.ASPath)[k])
//@ 	}) {
//@ 		return false
//@ 	}
//@ 	if len(pb.Communities) > 0 && !(b.Communities != nil && verif_sameelems(*b.Communities, pb.Communities)) {
//@ 		return false
//@ 	}
//@ 	if len(pb.Communities) == 0 && b.Communities != nil {
//@ 		return false
//@ 	}
//@ 	if len(pb.ClusterList) > 0 && !(b.ClusterList != nil && verif_sameelems(*b.ClusterList, pb.ClusterList)) {
//@ 		return false
//@ 	}
//@ 	if len(pb.ClusterList) == 0 && b.ClusterList != nil {
//@ 		return false
//@ 	}
//@ 	if len(pb.LargeCommunities) > 0 && !(b.LargeCommunities != nil && len(*b.LargeCommunities) == len(pb.LargeCommunities) && verif_forall(0, len(pb.LargeCommunities), func(k int) bool { return spec_sameLC(pb.LargeCommunities[k], (*b.LargeCommunities)[k]) })) {
//@ 		return false
//@ 	}
//@ 	if len(pb.LargeCommunities) == 0 && b.LargeCommunities != nil {
//@ 		return false
//@ 	}
//@ 	return len(b.UnknownAttributes) == len(pb.UnknownAttributes) && verif_forall(0, len(pb.UnknownAttributes), func(k int) bool { return spec_sameUA(pb.UnknownAttributes[k], b.UnknownAttributes[k]) })
//@ }
//@ // a can be converted
//@ func spec_okAPIPath(a *api.Path) bool {
//@ 	return a != nil && (a.Type != api.Path_BGP || spec_okAPIBGP(a.BgpPath)) && (a.Type != api.Path_Static || (a.StaticPath != nil && a.StaticPath.NextHop != nil))
//@ }
//@ // p is the path the API form a stands for
//@ func spec_pathFrom(a *api.Path, p *Path) bool {
//@ 	return p != nil && (a.Type != api.Path_BGP || (p.Type == BGPPathType && spec_bgpFrom(a.BgpPath, p.BGPPath))) &&
//@ 		(a.Type != api.Path_Static || (p.Type == StaticPathType && p.StaticPath != nil && p.StaticPath.NextHop != nil && spec_sameIP(a.StaticPath.NextHop, p.StaticPath.NextHop)))
//@ }
//@ // a is the API form of the path p
//@ func spec_pathConv(a *api.Path, p *Path) bool {
//@ 	return a != nil && a.TimeLearned == p.LTime && (p.Type != BGPPathType || a.Type == api.Path_BGP) && (p.Type != StaticPathType || a.Type == api.Path_Static) &&
//@ 		(p.HiddenReason > HiddenReasonOTCMismatch || int32(a.HiddenReason) == int32(p.HiddenReason)) &&
//@ 		spec_bgpConv(a.BgpPath, p.BGPPath) && (p.StaticPath == nil) == (a.StaticPath == nil) && (p.StaticPath == nil || spec_sameIP(a.StaticPath.NextHop, p.StaticPath.NextHop))
//@ }
//@ end

//@ contract (*StaticPath).ToProto
//@   props C34
//@   nilrecv
//@   requires s != nil ==> s.NextHop != nil
//@   ensures (s == nil) == (result == nil)
//@   ensures s != nil ==> verif_fresh(result) && spec_sameIP(result.NextHop, s.NextHop)
//@   modifies nothing

//@ contract StaticPathFromProtoStaticPath
//@   props C34
//@   requires pb != nil && pb.NextHop != nil
//@   ensures result != nil && verif_fresh(result) && result.NextHop != nil && spec_sameIP(pb.NextHop, result.NextHop)
//@   modifies nothing

// The attribute block cache hands out a block equal to the one it is given.
//@ contract (*BGPPathA).Dedup
//@   props C34
//@   trusted the cache returns the block itself or a cached block that was equal to it when cached; cached blocks are not modified afterwards (that is property C13)
//@   requires b != nil
//@   ensures result != nil && *result == *b
//@   modifies nothing

//@ contract (*BGPPath).ToProto
//@   props C34
//@   nilrecv
//@   ensures (b == nil) == (result == nil)
//@   ensures b != nil ==> verif_fresh(result) && result.PathIdentifier == b.PathIdentifier && result.BmpPostPolicy == b.BMPPostPolicy
//@   ensures b != nil && b.BGPPathA != nil ==> result.LocalPref == b.BGPPathA.LocalPref && result.Origin == uint32(b.BGPPathA.Origin) && result.Med == b.BGPPathA.MED && result.Ebgp == b.BGPPathA.EBGP
//@   ensures b != nil && b.BGPPathA != nil ==> result.BgpIdentifier == b.BGPPathA.BGPIdentifier && result.OriginatorId == b.BGPPathA.OriginatorID && result.OnlyToCustomer == b.BGPPathA.OnlyToCustomer
//@   ensures b != nil && b.BGPPathA != nil && b.BGPPathA.NextHop != nil ==> spec_sameIP(result.NextHop, b.BGPPathA.NextHop)
//@   ensures b != nil && b.BGPPathA != nil && b.BGPPathA.Source != nil ==> spec_sameIP(result.Source, b.BGPPathA.Source)
//@   ensures b != nil && b.ASPath != nil ==> len(result.AsPath) == len(*b.ASPath) && forall(k, 0, len(*b.ASPath), spec_sameSeg(result.AsPath[k], (*b.ASPath)[k]))
//@   ensures b != nil && b.ClusterList != nil ==> verif_sameelems(result.ClusterList, *b.ClusterList)
//@   ensures b != nil && b.Communities != nil ==> verif_sameelems(result.Communities, *b.Communities)
//@   ensures b != nil && b.LargeCommunities != nil ==> len(result.LargeCommunities) == len(*b.LargeCommunities) && forall(k, 0, len(*b.LargeCommunities), spec_sameLC(result.LargeCommunities[k], (*b.LargeCommunities)[k]))
//@   ensures b != nil ==> len(result.UnknownAttributes) == len(b.UnknownAttributes) && forall(k, 0, len(b.UnknownAttributes), spec_sameUA(result.UnknownAttributes[k], b.UnknownAttributes[k]))
//@   ensures spec_bgpConv(result, b)
//@   modifies nothing
//@   loop 0 vars a *api.BGPPath, rangeindex int
//@   loop 0 invariant b.LargeCommunities != nil && len(a.LargeCommunities) == len(*b.LargeCommunities) && verif_freshslice(a.LargeCommunities)
//@   loop 0 invariant forall(k, 0, rangeindex+1, spec_sameLC(a.LargeCommunities[k], (*b.LargeCommunities)[k]))
//@   loop 1 vars a *api.BGPPath, rangeindex int
//@   loop 1 invariant len(a.UnknownAttributes) == len(b.UnknownAttributes) && verif_freshslice(a.UnknownAttributes)
//@   loop 1 invariant forall(k, 0, rangeindex+1, spec_sameUA(a.UnknownAttributes[k], b.UnknownAttributes[k]) && verif_fresh(a.UnknownAttributes[k]) && verif_freshslice(a.UnknownAttributes[k].Value))

//@ contract BGPPathFromProtoBGPPath
//@   props C34
//@   requires pb != nil && pb.NextHop != nil && pb.Source != nil
//@   requires forall(k, 0, len(pb.AsPath), pb.AsPath[k] != nil) && forall(k, 0, len(pb.LargeCommunities), pb.LargeCommunities[k] != nil) && forall(k, 0, len(pb.UnknownAttributes), pb.UnknownAttributes[k] != nil && pb.UnknownAttributes[k].TypeCode <= 255)
//@   ensures result != nil && result.BGPPathA != nil && result.PathIdentifier == pb.PathIdentifier && result.BMPPostPolicy == pb.BmpPostPolicy
//@   ensures result.BGPPathA.LocalPref == pb.LocalPref && uint32(result.BGPPathA.Origin) == pb.Origin&255 && result.BGPPathA.MED == pb.Med && result.BGPPathA.EBGP == pb.Ebgp
//@   ensures result.BGPPathA.BGPIdentifier == pb.BgpIdentifier && result.BGPPathA.OriginatorID == pb.OriginatorId && result.BGPPathA.OnlyToCustomer == pb.OnlyToCustomer
//@   ensures result.BGPPathA.NextHop != nil && spec_sameIP(pb.NextHop, result.BGPPathA.NextHop) && result.BGPPathA.Source != nil && spec_sameIP(pb.Source, result.BGPPathA.Source)
//@   ensures result.ASPath != nil && len(*result.ASPath) == len(pb.AsPath) && forall(k, 0, len(pb.AsPath), ((*result.ASPath)[k].Type == types.ASSequence || (*result.ASPath)[k].Type == types.ASSet) && spec_sameSeg(pb.AsPath[k], (*result.ASPath)[k]))
//@   ensures len(pb.Communities) > 0 ==> result.Communities != nil && verif_sameelems(*result.Communities, pb.Communities)
//@   ensures len(pb.Communities) == 0 ==> result.Communities == nil
//@   ensures len(pb.ClusterList) > 0 ==> result.ClusterList != nil && verif_sameelems(*result.ClusterList, pb.ClusterList)
//@   ensures len(pb.ClusterList) == 0 ==> result.ClusterList == nil
//@   ensures len(pb.LargeCommunities) > 0 ==> result.LargeCommunities != nil && len(*result.LargeCommunities) == len(pb.LargeCommunities) && forall(k, 0, len(pb.LargeCommunities), spec_sameLC(pb.LargeCommunities[k], (*result.LargeCommunities)[k]))
//@   ensures len(pb.LargeCommunities) == 0 ==> result.LargeCommunities == nil
//@   ensures len(result.UnknownAttributes) == len(pb.UnknownAttributes) && forall(k, 0, len(pb.UnknownAttributes), spec_sameUA(pb.UnknownAttributes[k], result.UnknownAttributes[k]))
//@   ensures spec_bgpFrom(pb, result) && verif_fresh(result)
//@   modifies nothing
//@   loop 0 vars p *BGPPath, rangeindex int
//@   loop 0 invariant p != nil && verif_fresh(p) && p.LargeCommunities != nil && verif_fresh(p.LargeCommunities) && len(*p.LargeCommunities) == len(pb.LargeCommunities) && verif_freshslice(*p.LargeCommunities)
//@   loop 0 invariant forall(k, 0, rangeindex+1, spec_sameLC(pb.LargeCommunities[k], (*p.LargeCommunities)[k]))
//@   loop 1 vars p *BGPPath, rangeindex int
//@   loop 1 invariant p != nil && verif_fresh(p) && len(p.UnknownAttributes) == len(pb.UnknownAttributes) && verif_freshslice(p.UnknownAttributes)
//@   loop 1 invariant forall(k, 0, rangeindex+1, spec_sameUA(pb.UnknownAttributes[k], p.UnknownAttributes[k]))

// Type, learn time and both path kinds; a path with a hidden reason is never
// reported with "none".
//@ contract (*Path).ToProto
//@   props C34
//@   requires p != nil && (p.StaticPath != nil ==> p.StaticPath.NextHop != nil)
//@   ensures result != nil && verif_fresh(result) && result.TimeLearned == p.LTime
//@   ensures (p.Type == BGPPathType ==> result.Type == api.Path_BGP) && (p.Type == StaticPathType ==> result.Type == api.Path_Static)
//@   ensures p.HiddenReason <= HiddenReasonOTCMismatch ==> int32(result.HiddenReason) == int32(p.HiddenReason)
//@   ensures p.HiddenReason > HiddenReasonOTCMismatch ==> result.HiddenReason != api.Path_HiddenReasonNone
//@   ensures (p.BGPPath == nil) == (result.BgpPath == nil) && (p.StaticPath == nil) == (result.StaticPath == nil)
//@   ensures spec_pathConv(result, p)
//@   modifies nothing

// Every path of the route, in order, under the route's prefix.
//@ contract (*Route).ToProto
//@   props C34
//@   requires r != nil && r.pfx != nil && forall(k, 0, len(r.paths), r.paths[k] != nil && (r.paths[k].StaticPath == nil || r.paths[k].StaticPath.NextHop != nil))
//@   ensures result != nil && result.Pfx != nil && result.Pfx.Length == uint32(r.pfx.Len()) && spec_sameIP(result.Pfx.Address, r.pfx.Addr().Ptr())
//@   ensures len(result.Paths) == len(r.paths) && forall(k, 0, len(r.paths), spec_pathConv(result.Paths[k], r.paths[k]))
//@   modifies nothing
//@   loop 0 vars a *api.Route, rangeindex int
//@   loop 0 invariant a != nil && verif_fresh(a) && len(a.Paths) == len(r.paths) && verif_freshslice(a.Paths)
//@   loop 0 invariant forall(k, 0, rangeindex+1, spec_pathConv(a.Paths[k], r.paths[k]))

// Every path of the API route, in order, under its prefix.
//@ contract RouteFromProtoRoute
//@   props C34
//@   requires ar != nil && ar.Pfx != nil && ar.Pfx.Address != nil && forall(k, 0, len(ar.Paths), spec_okAPIPath(ar.Paths[k]))
//@   ensures result != nil && result.pfx != nil && uint32(result.pfx.Len()) == ar.Pfx.Length&255 && spec_sameIP(ar.Pfx.Address, result.pfx.Addr().Ptr())
//@   ensures len(result.paths) == len(ar.Paths) && forall(k, 0, len(ar.Paths), spec_pathFrom(ar.Paths[k], result.paths[k]))
//@   modifies nothing
//@   loop 0 vars r *Route, rangeindex int
//@   loop 0 invariant r != nil && verif_fresh(r) && len(r.paths) == rangeindex+1 && verif_freshslice(r.paths) && r.pfx != nil && uint32(r.pfx.Len()) == ar.Pfx.Length&255 && spec_sameIP(ar.Pfx.Address, r.pfx.Addr().Ptr())
//@   loop 0 invariant forall(k, 0, rangeindex+1, spec_pathFrom(ar.Paths[k], r.paths[k]))

// Properties C13 / C14: a policy works on a copy. Copy gives the path object, its
// BGP path, the attribute block and the AS-path segment list objects of their
// own (the ASN lists of the segments, the unknown attributes and the next hop
// object are shared with the original and must not be written).
//@ spec
//@ // q and the objects a policy action may write through it were allocated during this execution
//@ func Spec_WorkFresh(q *Path) bool {
//@ 	return verif_fresh(q) && (q.BGPPath == nil || (verif_fresh(q.BGPPath) &&
//@ 		(q.BGPPath.BGPPathA == nil || verif_fresh(q.BGPPath.BGPPathA)) &&
//@ 		(q.BGPPath.ASPath == nil || (verif_fresh(q.BGPPath.ASPath) && verif_freshslice(*q.BGPPath.ASPath)))))
//@ }
//@ end

//@ contract (*BGPPathA).Copy
//@   props C13 C14
//@   nilrecv
//@   ensures (bpa == nil) == (result == nil)
//@   ensures bpa != nil ==> verif_fresh(result) && *result == *bpa
//@   modifies nothing

//@ contract (*BGPPath).Copy
//@   props C13 C14
//@   nilrecv
//@   ensures (b == nil) == (result == nil)
//@   ensures b != nil ==> verif_fresh(result) && (b.BGPPathA == nil) == (result.BGPPathA == nil) && (b.ASPath == nil) == (result.ASPath == nil)
//@   ensures b != nil && b.BGPPathA != nil ==> verif_fresh(result.BGPPathA) && *result.BGPPathA == *b.BGPPathA
//@   ensures b != nil && b.ASPath != nil ==> verif_fresh(result.ASPath) && verif_freshslice(*result.ASPath) && verif_sameelems(*result.ASPath, *b.ASPath)
//@   ensures b != nil ==> result.PathIdentifier == b.PathIdentifier && result.ASPathLen == b.ASPathLen && result.BMPPostPolicy == b.BMPPostPolicy
//@   modifies nothing

//@ contract (*StaticPath).Copy
//@   props C13 C14
//@   nilrecv
//@   ensures (s == nil) == (result == nil)
//@   ensures s != nil ==> verif_fresh(result) && result.NextHop == s.NextHop
//@   modifies nothing

//@ contract (*Path).Copy
//@   props C13 C14
//@   nilrecv
//@   ensures (p == nil) == (result == nil)
//@   ensures p != nil ==> (p.StaticPath == nil) == (result.StaticPath == nil) && (result.StaticPath == nil || verif_fresh(result.StaticPath))
//@   ensures p != nil ==> Spec_WorkFresh(result) && result.Type == p.Type && result.HiddenReason == p.HiddenReason && result.LTime == p.LTime && result.RedistributedFrom == p.RedistributedFrom
//@   ensures p != nil ==> (p.BGPPath == nil) == (result.BGPPath == nil)
//@   ensures p != nil && p.BGPPath != nil ==> (p.BGPPath.BGPPathA == nil) == (result.BGPPath.BGPPathA == nil) && (p.BGPPath.ASPath == nil) == (result.BGPPath.ASPath == nil)
//@   ensures p != nil && p.BGPPath != nil && p.BGPPath.BGPPathA != nil ==> *result.BGPPath.BGPPathA == *p.BGPPath.BGPPathA
//@   ensures p != nil && p.BGPPath != nil && p.BGPPath.ASPath != nil ==> verif_sameelems(*result.BGPPath.ASPath, *p.BGPPath.ASPath)
//@   modifies nothing

// Properties C25 / C26 (see routingtable/zz_contracts_verif.go for what is
// decided): the route's own mutex is the innermost lock.
// (The path list is protected partly by this mutex and partly by the lock of
// the table that owns the route; no single-mutex `guarded` discipline describes
// it, so none is declared.)
//@ locklevel Route.mu 95

//@ contract (*Route).ECMPPaths, (*Route).AddPath, (*Route).RemovePath, (*Route).PathSelection, (*Route).Equal
//@   props C25
//@   nosafety
//@   nilrecv
//@   acquires 95
//@   locks C25

//@ locklevel bgpPathACache.cacheMu 97
//@ contract (*bgpPathACache).get
//@   props C25
//@   nosafety
//@   acquires 97
//@   locks C25
//@ contract (*BGPPathA).Dedup
//@   props C25
//@   acquires 97
//@   locks C25
