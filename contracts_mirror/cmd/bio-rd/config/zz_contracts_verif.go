//go:build verif

package config

// Contracts for govc (contract-based deductive verification, see /verif/DESIGN.md).
// Comments only; compiled only with the build tag "verif".

// Property C36 (group-to-neighbor inheritance): after a group has been loaded,
// a neighbor lacks a setting only if the group lacks it too - whatever the
// group sets reaches every neighbor that does not set it itself.
//@ spec
//@ func spec_inherited(bg *BGPGroup, bn *BGPNeighbor) bool {
//@ 	return (bn.TTL != 0 || bg.TTL == 0) &&
//@ 		(bn.RouteServerClient != nil || bg.RouteServerClient == nil) &&
//@ 		(bn.RouteReflectorClient != nil || bg.RouteReflectorClient == nil) &&
//@ 		(bn.Passive != nil || bg.Passive == nil) &&
//@ 		(bn.IPv4 != nil || bg.IPv4 == nil) &&
//@ 		(bn.IPv6 != nil || bg.IPv6 == nil) &&
//@ 		(bn.Multipath != nil || bg.Multipath == nil) &&
//@ 		(bn.AuthenticationKey != "" || bg.AuthenticationKey == "") &&
//@ 		(len(bn.RoutingInstance) != 0 || len(bg.RoutingInstance) == 0) &&
//@ 		(bn.LocalAddress != "" || bn.LocalAddressIP == bg.LocalAddressIP) &&
//@ 		(bn.ClusterID != "" || bn.ClusterIDIP == bg.ClusterIDIP) &&
//@ 		bn.LocalAS != 0 && bn.PeerAS != 0 && bn.HoldTime != 0
//@ }
//@ end

// Loading a neighbor parses its addresses and builds its own policy chains; the
// inherited settings are not touched.
//@ contract (*BGPNeighbor).load
//@   props C36
//@   nosafety
//@   requires bn != nil
//@   old ttl uint8 = bn.TTL
//@   old rsc *bool = bn.RouteServerClient
//@   old rrc *bool = bn.RouteReflectorClient
//@   old pas *bool = bn.Passive
//@   old v4 *AddressFamilyConfig = bn.IPv4
//@   old v6 *AddressFamilyConfig = bn.IPv6
//@   old mp *Multipath = bn.Multipath
//@   old key string = bn.AuthenticationKey
//@   old ri string = bn.RoutingInstance
//@   old las uint32 = bn.LocalAS
//@   old pas2 uint32 = bn.PeerAS
//@   old ht uint16 = bn.HoldTime
//@   old lad string = bn.LocalAddress
//@   old cid string = bn.ClusterID
//@   old lip *bnet.IP = bn.LocalAddressIP
//@   old cip *bnet.IP = bn.ClusterIDIP
//@   ensures bn.TTL == ttl && bn.RouteServerClient == rsc && bn.RouteReflectorClient == rrc && bn.Passive == pas && bn.IPv4 == v4 && bn.IPv6 == v6 && bn.Multipath == mp
//@   ensures bn.AuthenticationKey == key && bn.RoutingInstance == ri && bn.LocalAS == las && bn.PeerAS == pas2 && bn.HoldTime == ht
//@   ensures result == nil ==> bn.PeerAS != 0
//@   ensures bn.LocalAddress == lad && bn.ClusterID == cid
//@   ensures bn.LocalAddress == "" ==> bn.LocalAddressIP == lip
//@   ensures bn.ClusterID == "" ==> bn.ClusterIDIP == cip
//@   modifies bn
//@   loop 0 invariant len(bn.Import) > 0 ==> verif_freshslice(bn.ImportFilterChain)
//@   loop 1 invariant len(bn.Export) > 0 ==> verif_freshslice(bn.ExportFilterChain)

//@ contract (*BGPGroup).load
//@   props C36
//@   nosafety
//@   requires bg != nil && forall(k, 0, len(bg.Neighbors), bg.Neighbors[k] != nil)
//@   ensures result == nil ==> forall(k, 0, len(bg.Neighbors), spec_inherited(bg, bg.Neighbors[k]))
//@   loop 2 vars rangeindex int
//@   loop 2 invariant bg.HoldTime != 0 && forall(k, 0, len(bg.Neighbors), bg.Neighbors[k] != nil) && forall(k, 0, rangeindex+1, spec_inherited(bg, bg.Neighbors[k]))
