//go:build verif

package main

// Contracts for govc (contract-based deductive verification, see /verif/DESIGN.md).
// Comments only; compiled only with the build tag "verif".

// Property C36 (the configurator's side): a session that is running is kept on
// a reload only if the new configuration lists a neighbor with its address in
// its VRF - a neighbor with the same address in another routing instance does
// not keep it alive.
//@ import "github.com/bio-routing/bio-rd/routingtable/vrf"

// Within one reload the VRF determined for a neighbor entry is a function of
// that entry (an entry belongs to one group; the registry is not changed while
// the configuration is compared).
//@ contract (*bgpConfigurator).determineVRF
//@   props C36
//@   trusted the VRF of a neighbor entry is a function of the entry during one reload (registry lookups and the default VRF are not modelled)
//@   ensures result0 == verif_uf_val[*vrf.VRF]("vrfOfNeighbor", bn)
//@   modifies nothing

//@ contract (*bgpConfigurator).peerExistsInConfig
//@   props C36
//@   nosafety
//@   requires c != nil && cfg != nil
//@   ensures result ==> exists(g, 0, len(cfg.Groups), exists(n, 0, len(cfg.Groups[g].Neighbors), cfg.Groups[g].Neighbors[n].PeerAddressIP == p.Addr() && p.VRF() == verif_uf_val[*vrf.VRF]("vrfOfNeighbor", cfg.Groups[g].Neighbors[n])))
//@   modifies nothing
