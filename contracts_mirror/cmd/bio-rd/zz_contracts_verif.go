//go:build verif

package main

// Contracts for govc (contract-based deductive verification, see /verif/DESIGN.md).
// Comments only; compiled only with the build tag "verif".

// Property C36 (the configurator's side): a session that is running is kept on
// a reload only if the new configuration lists a neighbor with its address in
// its VRF - a neighbor with the same address in another routing instance does
// not keep it alive.
//@ import "github.com/bio-routing/bio-rd/routingtable/vrf"

// Within one reload the VRF determined for a neighbor entry is a function of
// that entry (an entry belongs to one group; the registry is not changed while
// the configuration is compared).
//@ contract (*bgpConfigurator).determineVRF
//@   props C36
//@   trusted the VRF of a neighbor entry is a function of the entry during one reload (registry lookups and the default VRF are not modelled)
//@   ensures result0 == verif_uf_val[*vrf.VRF]("vrfOfNeighbor", bn)
//@   modifies nothing

//@ import "github.com/bio-routing/bio-rd/cmd/bio-rd/config"
//@ import bgpserver "github.com/bio-routing/bio-rd/protocols/bgp/server"
//@ spec
//@ func spec_match(bn *config.BGPNeighbor, p bgpserver.PeerKey) bool {
//@ 	return bn.PeerAddressIP == p.Addr() && p.VRF() == verif_uf_val[*vrf.VRF]("vrfOfNeighbor", bn)
//@ }
//@ func spec_noneIn(bg *config.BGPGroup, p bgpserver.PeerKey) bool {
//@ 	return verif_forall(0, len(bg.Neighbors), func(n int) bool { return !spec_match(bg.Neighbors[n], p) })
//@ }
//@ end

//@ contract (*bgpConfigurator).peerExistsInConfig
//@   props C36
//@   nosafety
//@   requires c != nil && cfg != nil
//@   ensures result ==> exists(g, 0, len(cfg.Groups), exists(n, 0, len(cfg.Groups[g].Neighbors), spec_match(cfg.Groups[g].Neighbors[n], p)))
//@   ensures !result ==> forall(g, 0, len(cfg.Groups), spec_noneIn(cfg.Groups[g], p))
//@   modifies nothing
//@   loop 0 vars rangeindex int
//@   loop 0 invariant forall(g, 0, rangeindex+1, spec_noneIn(cfg.Groups[g], p))
//@   loop 1 vars rangeindex int, bg *config.BGPGroup
//@   loop 1 invariant forall(n, 0, rangeindex+1, !spec_match(bg.Neighbors[n], p))

// Only sessions without a neighbor entry of their address and VRF are disposed,
// and it is that session which is disposed.
//@ import bnet "github.com/bio-routing/bio-rd/net"
//@ contract (*bgpConfigurator).deconfigureRemovedSessions
//@   props C36
//@   nosafety
//@   requires c != nil && cfg != nil
//@   call DisposePeer args v *vrf.VRF, a *bnet.IP vars p bgpserver.PeerKey requires v == p.VRF() && a == p.Addr() && forall(g, 0, len(cfg.Groups), spec_noneIn(cfg.Groups[g], p))

// A changed neighbor: when the session is replaced it is the old one that goes
// and the new configuration that comes; when the policies are replaced in
// place, each direction gets the chain configured for it, on the session of the
// neighbor's address and VRF. (That the choice between the two is NeedsRestart
// is not stated here: the call result has no name a clause could refer to.)
//@ import "github.com/bio-routing/bio-rd/routingtable/filter"
//@ contract (*bgpConfigurator).reconfigureModifiedSession
//@   props C36
//@   nosafety
//@   requires c != nil && bn != nil && newCfg != nil && oldCfg != nil
//@   call replaceSession args n *bgpserver.PeerConfig, o *bgpserver.PeerConfig requires n == newCfg && o == oldCfg
//@   call ReplaceImportFilterChain args v *vrf.VRF, a *bnet.IP, ch filter.Chain requires v == newCfg.VRF && a == bn.PeerAddressIP && len(ch) == len(bn.ImportFilterChain) && verif_arrayof(ch) == verif_arrayof(bn.ImportFilterChain)
//@   call ReplaceExportFilterChain args v *vrf.VRF, a *bnet.IP, ch filter.Chain requires v == newCfg.VRF && a == bn.PeerAddressIP && len(ch) == len(bn.ExportFilterChain) && verif_arrayof(ch) == verif_arrayof(bn.ExportFilterChain)

//@ contract (*bgpConfigurator).replaceSession
//@   props C36
//@   nosafety
//@   requires c != nil && newCfg != nil && oldCfg != nil
//@   call DisposePeer args v *vrf.VRF, a *bnet.IP requires v == oldCfg.VRF && a == oldCfg.PeerAddress

// The session settings are those of the neighbor entry, field by field: every
// setting of the entry that affects a session reaches the PeerConfig that is
// compared (NeedsRestart) and started.
//@ spec
//@ func spec_afOK(baf *config.AddressFamilyConfig, af *bgpserver.AddressFamilyConfig, bn *config.BGPNeighbor) bool {
//@ 	if af == nil {
//@ 		return false
//@ 	}
//@ 	if len(af.ImportFilterChain) != len(bn.ImportFilterChain) || len(af.ExportFilterChain) != len(bn.ExportFilterChain) {
//@ 		return false
//@ 	}
//@ 	if verif_arrayof(af.ImportFilterChain) != verif_arrayof(bn.ImportFilterChain) || verif_arrayof(af.ExportFilterChain) != verif_arrayof(bn.ExportFilterChain) {
//@ 		return false
//@ 	}
//@ 	if baf == nil {
//@ 		return !af.AddPathRecv && af.AddPathSend.BestOnly && !af.NextHopExtended
//@ 	}
//@ 	if af.NextHopExtended != baf.NextHopExtended {
//@ 		return false
//@ 	}
//@ 	if baf.AddPath == nil {
//@ 		return !af.AddPathRecv && af.AddPathSend.BestOnly
//@ 	}
//@ 	if af.AddPathRecv != baf.AddPath.Receive {
//@ 		return false
//@ 	}
//@ 	if baf.AddPath.Send == nil {
//@ 		return af.AddPathSend.BestOnly
//@ 	}
//@ 	return af.AddPathSend.BestOnly == !baf.AddPath.Send.Multipath && af.AddPathSend.MaxPaths == uint(baf.AddPath.Send.PathCount)
//@ }
//@ end
//@ contract (*bgpConfigurator).newPeerConfig
//@   props C36
//@   nosafety
//@   requires c != nil && bn != nil && bn.PeerAddressIP != nil
//@   ensures result != nil && result.AdminEnabled == !bn.Disabled && result.AuthenticationKey == bn.AuthenticationKey && result.LocalAS == bn.LocalAS && result.PeerAS == bn.PeerAS
//@   ensures result.PeerAddress == bn.PeerAddressIP && result.LocalAddress == bn.LocalAddressIP && result.TTL == bn.TTL && result.HoldTime == bn.HoldTimeDuration && result.KeepAlive == bn.HoldTimeDuration/3
//@   ensures result.VRF == vrf && result.AdvertiseIPv4MultiProtocol == bn.AdvertiseIPv4MultiProtocol
//@   ensures result.Passive == (bn.Passive != nil && *bn.Passive) && result.RouteServerClient == (bn.RouteServerClient != nil && *bn.RouteServerClient) && result.RouteReflectorClient == (bn.RouteReflectorClient != nil && *bn.RouteReflectorClient)
//@   ensures bn.ClusterIDIP != nil ==> result.RouteReflectorClusterID == bn.ClusterIDIP.ToUint32()
//@   ensures (result.IPv4 != nil) == (bn.PeerAddressIP.IsIPv4() || bn.IPv4 != nil)
//@   ensures (result.IPv6 != nil) == (!bn.PeerAddressIP.IsIPv4() || bn.IPv6 != nil)
//@   ensures result.IPv4 != nil ==> spec_afOK(bn.IPv4, result.IPv4, bn)
//@   ensures result.IPv6 != nil ==> spec_afOK(bn.IPv6, result.IPv6, bn)

// A neighbor entry is looked up among the running sessions by its own address
// and VRF; without a running session the new configuration is added, with one
// it is that session's configuration the new one is compared with.
//@ contract (*bgpConfigurator).configureSession
//@   props C36
//@   nosafety
//@   requires c != nil && bn != nil && bg != nil
//@   call GetPeerConfig args vv *vrf.VRF, a *bnet.IP vars v *vrf.VRF requires vv == v && a == bn.PeerAddressIP
//@   call reconfigureModifiedSession args n *config.BGPNeighbor, g *config.BGPGroup, nc *bgpserver.PeerConfig, oc *bgpserver.PeerConfig vars newCfg *bgpserver.PeerConfig, oldCfg *bgpserver.PeerConfig requires n == bn && g == bg && nc == newCfg && oc == oldCfg && oldCfg != nil
//@   call AddPeer args cfg bgpserver.PeerConfig vars newCfg *bgpserver.PeerConfig, oldCfg *bgpserver.PeerConfig requires oldCfg == nil && cfg.PeerAddress == newCfg.PeerAddress && cfg.VRF == newCfg.VRF && cfg.TTL == newCfg.TTL && cfg.PeerAS == newCfg.PeerAS && cfg.LocalAS == newCfg.LocalAS && cfg.IPv4 == newCfg.IPv4 && cfg.IPv6 == newCfg.IPv6
