package dijkstra

// Bounded stand-in for the part of property C35 that is not proved deductively
// (minimal distances, valid paths). Injected into the package by the verifier
// through a build overlay; nothing is written to the repository.

import (
	"fmt"
	"math/rand"
	"os"
	"strconv"
	"testing"
)

func verifNodes(n int) []Node {
	ns := make([]Node, n)
	for i := range ns {
		ns[i] = Node{Name: fmt.Sprintf("n%d", i)}
	}
	return ns
}

// verifCheck compares SPT(src) with Bellman-Ford and validates every path.
func verifCheck(ns []Node, es []Edge, src Node) string {
	top := NewTopology(ns, es)
	var spt SPT
	func() {
		defer func() {
			if r := recover(); r != nil {
				spt = nil
			}
		}()
		spt = top.SPT(src)
	}()
	if spt == nil {
		return "panic"
	}
	w := map[[2]string]int64{}
	for _, e := range es {
		w[[2]string{e.NodeA.Name, e.NodeB.Name}] = e.Distance // later edges overwrite, as in NewTopology
	}
	dist := map[string]int64{}
	for _, n := range ns {
		dist[n.Name] = -1
	}
	dist[src.Name] = 0
	for i := 0; i < len(ns); i++ {
		for k, d := range w {
			if dist[k[0]] >= 0 && (dist[k[1]] < 0 || dist[k[0]]+d < dist[k[1]]) {
				dist[k[1]] = dist[k[0]] + d
			}
		}
	}
	for _, n := range ns {
		p, ok := spt[n]
		if !ok {
			return "node " + n.Name + " missing from the tree"
		}
		if p.Distance != dist[n.Name] {
			return fmt.Sprintf("node %s: distance %d, minimal distance %d", n.Name, p.Distance, dist[n.Name])
		}
		if p.Distance < 0 {
			continue
		}
		// the recorded path starts at the source, ends at n, uses existing edges and sums to the distance
		at, sum := src.Name, int64(0)
		for _, e := range p.Edges {
			d, ok := w[[2]string{e.NodeA.Name, e.NodeB.Name}]
			if e.NodeA.Name != at || !ok || d != e.Distance {
				return fmt.Sprintf("node %s: path edge %s->%s (%d) does not continue the path at %s or is not an edge of the graph", n.Name, e.NodeA.Name, e.NodeB.Name, e.Distance, at)
			}
			at = e.NodeB.Name
			sum += e.Distance
		}
		if at != n.Name || sum != p.Distance {
			return fmt.Sprintf("node %s: path ends at %s with length %d, distance %d", n.Name, at, sum, p.Distance)
		}
	}
	return ""
}

func TestVerifBoundedSPT(t *testing.T) {
	cases := 0
	fail := func(ns []Node, es []Edge, src Node, msg string) {
		t.Fatalf("VERIF-BOUNDED-FAIL graph nodes=%d edges=%v source=%s: %s", len(ns), es, src.Name, msg)
	}
	// exhaustive part: up to 4 nodes, every ordered pair absent or with weight 0..3
	for n := 1; n <= 4; n++ {
		ns := verifNodes(n)
		var pairs [][2]int
		for i := 0; i < n; i++ {
			for j := 0; j < n; j++ {
				if i != j {
					pairs = append(pairs, [2]int{i, j})
				}
			}
		}
		total := 1
		for range pairs {
			total *= 5
		}
		step := 1
		if n == 4 {
			// 5^12 graphs: a fixed stride (coprime to 5) samples them evenly; n <= 3 is complete
			step = 1999
			if os.Getenv("VERIF_TIER") == "thorough" {
				step = 97
			}
		}
		for code := 0; code < total; code += step {
			var es []Edge
			c := code
			for _, p := range pairs {
				d := c % 5
				c /= 5
				if d > 0 {
					es = append(es, Edge{NodeA: ns[p[0]], NodeB: ns[p[1]], Distance: int64(d - 1)})
				}
			}
			for s := 0; s < n; s++ {
				cases++
				if msg := verifCheck(ns, es, ns[s]); msg != "" {
					fail(ns, es, ns[s], msg)
				}
			}
		}
	}
	// structured part: chains with a fan-out behind the last hop, random extra edges
	seed, _ := strconv.Atoi(os.Getenv("VERIF_SEED"))
	rng := rand.New(rand.NewSource(int64(seed) + 1))
	for hops := 1; hops <= 6; hops++ {
		for rep := 0; rep < 60; rep++ {
			n := hops + 1 + 3
			ns := verifNodes(n)
			var es []Edge
			for i := 0; i < hops; i++ {
				es = append(es, Edge{NodeA: ns[i], NodeB: ns[i+1], Distance: int64(rng.Intn(3))})
			}
			for l := 0; l < 3; l++ {
				es = append(es, Edge{NodeA: ns[hops], NodeB: ns[hops+1+l], Distance: int64(rng.Intn(4))})
			}
			for x := 0; x < rep%4; x++ {
				a, b := rng.Intn(n), rng.Intn(n)
				if a != b {
					es = append(es, Edge{NodeA: ns[a], NodeB: ns[b], Distance: int64(rng.Intn(6))})
				}
			}
			cases++
			if msg := verifCheck(ns, es, ns[0]); msg != "" {
				fail(ns, es, ns[0], msg)
			}
		}
	}
	fmt.Printf("VERIF-BOUNDED-OK cases=%d\n", cases)
}
