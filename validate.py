#!/opt/veriftools/pyvenv/bin/python
import json, jsonschema, glob, sys
jsonschema.validate(json.load(open('/verif/MANIFEST.json')), json.load(open('/root/.vp/MANIFEST.schema.json')))
es = json.load(open('/root/.vp/EVIDENCE.schema.json'))
man = json.load(open('/verif/MANIFEST.json'))
claimed = {c['property_id'] for c in man['checks']}
for f in sorted(glob.glob('/verif/evidence/*.json')):
    try:
        ev = json.load(open(f))
        jsonschema.validate(ev, es)
    except Exception as e:
        print("INVALID", f, str(e)[:300]); sys.exit(1)
    c = ev.get('coverage', {})
    # a proof-level record: everything generated was discharged, and it comes from a full run
    if c.get('obligations') != c.get('discharged') or not c.get('obligations'):
        print("INVALID", f, "coverage.discharged != coverage.obligations (stale or partial run?)", c.get('discharged'), c.get('obligations')); sys.exit(1)
    if ev.get('property_id') not in claimed:
        print("INVALID", f, "evidence for a property that is not claimed"); sys.exit(1)
for pid in sorted(claimed):
    import os
    if not os.path.exists(f'/verif/evidence/{pid}.json'):
        print("MISSING evidence for", pid); sys.exit(1)
print("manifest and", len(glob.glob('/verif/evidence/*.json')), "evidence files valid")
